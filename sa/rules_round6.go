package main

// rules_round6.go — rules added after the sixth seeded round (DESIGN.md §9.5).

import (
	"fmt"
	"go/ast"
	"go/constant"
	"go/token"
	"go/types"
	"math/big"
	"os"
	"sort"
	"strings"

	"golang.org/x/tools/go/ssa"
)

// ruleNoAbortiveClose: SO_LINGER with a non-negative time turns Close into an abortive or time-bounded close:
// what is still unsent is discarded and the peer sees RST instead of the data followed by FIN.
func ruleNoAbortiveClose(w *World, r *Report, rule string) {
	var bad []string
	n := 0
	for _, fn := range sortedModuleFuncs(w, w.SSA()) {
		for _, c := range callsIn(fn) {
			f := sCallee(c)
			if f == nil || f.Name() != "SetLinger" || f.Pkg() == nil || f.Pkg().Path() != "net" {
				continue
			}
			n++
			args := c.Common().Args
			v, isC := constIntVal(args[len(args)-1])
			if isC && v < 0 {
				continue // the operating system's default: Close returns at once, the data is still delivered
			}
			bad = append(bad, fmt.Sprintf("%s: SetLinger with a non-negative value in %s: Close then discards what the kernel has not sent yet (RST instead of data + FIN) — a writer that closes right after its last write loses the tail whenever the reader is slower", w.Pos(c.Pos()), ssaFuncKey(fn)))
		}
	}
	sort.Strings(bad)
	r.Check(len(bad) == 0, rule, "linger:module", "-", fmt.Sprintf("%d SetLinger call(s), none non-negative: every Close is an orderly close", n), strings.Join(bad, "; "))
}

// ruleSortComparatorIndexesSortedSlice: sort.Slice(x, less) swaps the elements of x only. A less function that
// looks i and j up in ANOTHER slice (precomputed keys) compares keys that no longer belong to the elements at i
// and j after the first swap: the result is not sorted. (In-order input is never swapped, so tests pass.)
func ruleSortComparatorIndexesSortedSlice(w *World, r *Report, rule string, inScope func(pkgPath string) bool) {
	n := 0
	var bad []string
	for _, fn := range sortedModuleFuncs(w, w.SSA()) {
		f0 := fn
		for f0.Parent() != nil {
			f0 = f0.Parent()
		}
		if f0.Pkg == nil || !inScope(f0.Pkg.Pkg.Path()) {
			continue
		}
		for _, c := range callsIn(fn) {
			f := sCallee(c)
			if f == nil || f.Pkg() == nil || f.Pkg().Path() != "sort" || (f.Name() != "Slice" && f.Name() != "SliceStable") {
				continue
			}
			args := c.Common().Args
			if len(args) != 2 {
				continue
			}
			n++
			var sorted ssa.Value = args[0]
			if mi, ok := sorted.(*ssa.MakeInterface); ok {
				sorted = mi.X
			}
			mc, ok := args[1].(*ssa.MakeClosure)
			if !ok {
				continue // a named comparator: it cannot see a local key slice
			}
			less := mc.Fn.(*ssa.Function)
			if len(less.Params) != 2 {
				continue
			}
			// the captured variable that holds the sorted slice
			sortedRoots := map[ssa.Value]bool{}
			for _, root := range provenance(sorted, provOpts{}) {
				sortedRoots[root] = true
			}
			isSortedFree := func(v ssa.Value) bool {
				// v inside the closure: a free variable (or a load of it) bound to the sorted slice
				if u, ok := v.(*ssa.UnOp); ok {
					v = u.X
				}
				fv, ok := v.(*ssa.FreeVar)
				if !ok {
					return false
				}
				for i, f2 := range less.FreeVars {
					if f2 != fv || i >= len(mc.Bindings) {
						continue
					}
					b := mc.Bindings[i]
					if sortedRoots[b] {
						return true
					}
					for _, root := range provenance(b, provOpts{}) {
						if sortedRoots[root] {
							return true
						}
					}
					// bound by address of the local that holds the slice
					for _, root := range provenance(sorted, provOpts{}) {
						if u, ok := root.(*ssa.UnOp); ok && u.X == b {
							return true
						}
					}
					if u, ok := sorted.(*ssa.UnOp); ok && u.X == b {
						return true
					}
				}
				return false
			}
			allInstrs(less, func(in ssa.Instruction) {
				var base, idx ssa.Value
				switch x := in.(type) {
				case *ssa.IndexAddr:
					base, idx = x.X, x.Index
				case *ssa.Index:
					base, idx = x.X, x.Index
				case *ssa.Lookup:
					return
				default:
					return
				}
				if idx != ssa.Value(less.Params[0]) && idx != ssa.Value(less.Params[1]) {
					return
				}
				if !isSortedFree(base) {
					bad = append(bad, fmt.Sprintf("%s: the comparator of %s.%s indexes a slice other than the one being sorted with its element indices: after the first swap the keys no longer belong to the elements compared — records that arrive out of order are reassembled in the wrong order, silently", w.Pos(in.Pos()), "sort", f.Name()))
				}
			})
		}
	}
	sort.Strings(bad)
	r.Check(len(bad) == 0, rule, "sort:comparators", "-", fmt.Sprintf("%d sort.Slice call(s); every comparator indexes the sorted slice itself", n), strings.Join(bad, "; "))
}

// ruleSingleReadIsNotFull: a single call of (io.Reader).Read may return fewer bytes than the buffer holds
// without an error (encoding/base32's and base64's stream decoders hand out at most one internal buffer per
// call). In the codecs and command decoders a Read on an interface-typed reader must sit in a loop or go through
// io.ReadFull / io.ReadAll / (*bytes.Buffer).ReadFrom.
func ruleSingleReadIsNotFull(w *World, r *Report, rule string, inScope func(pkgPath string) bool) {
	n := 0
	var bad []string
	for _, fn := range sortedModuleFuncs(w, w.SSA()) {
		f0 := fn
		for f0.Parent() != nil {
			f0 = f0.Parent()
		}
		if f0.Pkg == nil || !inScope(f0.Pkg.Pkg.Path()) {
			continue
		}
		if fn.Name() == "Read" {
			continue // a Read method forwarding to its source has Read's own contract
		}
		for _, c := range callsIn(fn) {
			cc := c.Common()
			if !cc.IsInvoke() || cc.Method.Name() != "Read" || len(cc.Args) != 1 {
				continue
			}
			if _, ok := cc.Args[0].Type().Underlying().(*types.Slice); !ok {
				continue
			}
			n++
			call, ok := c.(*ssa.Call)
			if !ok {
				continue
			}
			if cycleThrough(call.Block()) != nil {
				continue
			}
			bad = append(bad, fmt.Sprintf("%s: one Read on an io.Reader in %s is taken for the whole input: a stream decoder may return less than the buffer holds without an error (encoding/base32 hands out at most 640 bytes per call) — longer payloads come back truncated, silently", w.Pos(c.Pos()), ssaFuncKey(fn)))
		}
	}
	sort.Strings(bad)
	r.Check(len(bad) == 0, rule, "read:single", "-", fmt.Sprintf("%d Read call(s) on interface-typed readers, each inside a loop", n), strings.Join(bad, "; "))
}

// c13VersionAnswersNameFreshSessions: R13.8 — the identifier a version answer hands out belongs to a session
// that was created for this very request: every value stored into VersionResponse.UserId on the server is the
// UserId of the object returned by a slot allocator (a function that stores a session it has just allocated
// into the session table). An identifier read from an existing table entry ("the same client asking again")
// gives two peers one session: the address check cannot tell them apart.
func c13VersionAnswersNameFreshSessions(w *World, r *Report) {
	rule := "R13.8"
	vr := w.Named("internal/streams/dns/commands", "VersionResponse")
	uidF := fieldOf(vr, "UserId")
	sl := w.Named("internal/streams/dns", "ServerDnsListener")
	uc := w.Named("internal/streams/dns", "userConnection")
	connF := fieldOf(sl, "connections")
	if connF == nil && sl != nil && uc != nil {
		// by role: the first table of sessions (the live one; the retired table follows it)
		connF = fieldByType(sl, func(t types.Type) bool {
			slc, ok := t.(*types.Slice)
			if !ok {
				return false
			}
			pt, ok := slc.Elem().(*types.Pointer)
			return ok && types.Identical(pt.Elem(), uc)
		})
	}
	if uidF == nil || uc == nil || connF == nil {
		r.Undecided(rule, "anchor", "-", "anchor unresolved: VersionResponse.UserId / userConnection / ServerDnsListener.connections")
		return
	}
	// slot allocators
	allocators := map[*ssa.Function]bool{}
	for _, fn := range dnsPkgFuncs(w) {
		allInstrs(fn, func(in ssa.Instruction) {
			st, ok := in.(*ssa.Store)
			if !ok {
				return
			}
			ia, ok := st.Addr.(*ssa.IndexAddr)
			if !ok {
				return
			}
			isTable := false
			for _, root := range provenance(ia.X, provOpts{}) {
				if isLoadOfField(root, connF) {
					isTable = true
				}
			}
			if !isTable || isConstNil(st.Val) {
				return
			}
			for _, root := range provInter(st.Val, 0) {
				if al, ok := root.(*ssa.Alloc); ok {
					if pt, ok := al.Type().(*types.Pointer); ok && types.Identical(pt.Elem(), uc) {
						allocators[fn] = true // allocated here or by a builder helper this function calls
					}
				}
			}
		})
	}
	if len(allocators) == 0 {
		r.Undecided(rule, "allocators", "-", "no function stores a freshly allocated session into the session table")
		return
	}
	n := 0
	for _, fn := range dnsPkgFuncs(w) {
		if fn.Pkg == nil || strings.HasSuffix(fn.Pkg.Pkg.Path(), "/commands") {
			continue
		}
		allInstrs(fn, func(in ssa.Instruction) {
			st, ok := in.(*ssa.Store)
			if !ok {
				return
			}
			fa, ok := st.Addr.(*ssa.FieldAddr)
			if !ok || fieldVarOf(fa) != uidF {
				return
			}
			n++
			key := fmt.Sprintf("store:VersionResponse.UserId@%s#%d", ssaFuncKey(fn), n)
			bad := ""
			for _, root := range provInter(st.Val, 0) {
				if _, isC := root.(*ssa.Const); isC {
					continue
				}
				// the UserId field of some session object: where does that object come from?
				u, ok := root.(*ssa.UnOp)
				var obj ssa.Value
				if ok {
					if f2, ok := u.X.(*ssa.FieldAddr); ok && fieldVarOf(f2) != nil && fieldVarOf(f2).Name() == "UserId" {
						obj = f2.X
					}
				}
				if obj == nil {
					bad = fmt.Sprintf("the identifier handed out is not the UserId of a session object (%s)", root.Name())
					break
				}
				for _, oroot := range provInter(obj, 0) {
					if isConstNil(oroot) {
						continue // the allocator's failure result: never dereferenced on a path that stores an identifier
					}
					fresh := false
					switch x := oroot.(type) {
					case *ssa.Alloc:
						if pt, ok := x.Type().(*types.Pointer); ok && types.Identical(pt.Elem(), uc) {
							fresh = true // an object allocated on this path cannot be somebody else's session
						}
					case *ssa.Extract:
						if c, ok := x.Tuple.(*ssa.Call); ok && allocators[c.Call.StaticCallee()] {
							fresh = true
						}
					case *ssa.Call:
						if allocators[x.Call.StaticCallee()] {
							fresh = true
						}
					}
					if !fresh {
						bad = fmt.Sprintf("the identifier handed out can belong to a session that was not created for this request (it comes from %s): a second client asking from the same address is given the first one's session, and both then share one stream", describeValue(w, oroot))
					}
				}
			}
			r.Check(bad == "", rule, key, w.Pos(st.Pos()), "the identifier is the UserId of the session the slot allocator has just created", bad)
		})
	}
	if n == 0 {
		r.Undecided(rule, "store:VersionResponse.UserId", "-", "the server never stores an identifier into a version answer")
	}
}

func describeValue(w *World, v ssa.Value) string {
	if c, ok := v.(*ssa.Call); ok {
		return "the result of " + describeCall(c)
	}
	if e, ok := v.(*ssa.Extract); ok {
		if c, ok := e.Tuple.(*ssa.Call); ok {
			return "the result of " + describeCall(c)
		}
	}
	return v.Name() + " (" + strings.TrimSpace(v.String()) + ")"
}

// errMaybeNil: can the error value v be nil on this path? pkg/errors' Wrap/Wrapf/WithStack/WithMessage return
// nil for a nil argument; New/Errorf never do.
func errMaybeNil(st *pathState, v ssa.Value, d int) bool {
	v = st.Resolve(v)
	if isConstNil(v) {
		return true
	}
	if isNil, known := st.NilKnown(v); known {
		return isNil
	}
	if c, ok := v.(*ssa.Call); ok && d < 4 {
		f := sCallee(c)
		if f != nil && f.Pkg() != nil && f.Pkg().Path() == "github.com/pkg/errors" {
			switch f.Name() {
			case "WithStack", "Wrap", "Wrapf", "WithMessage", "WithMessagef":
				return errMaybeNil(st, c.Call.Args[0], d+1)
			case "New", "Errorf":
				return false
			}
		}
		if f != nil && f.Pkg() != nil && (f.Pkg().Path() == "errors" || f.Pkg().Path() == "fmt") {
			return false
		}
	}
	// the result of a module function with a single error result: nil iff one of its return paths can yield nil
	if c, ok := v.(*ssa.Call); ok && d < 3 {
		if h := c.Call.StaticCallee(); h != nil && inModule(h) && len(h.Blocks) > 0 && h.Signature.Results().Len() == 1 && isErrorType(h.Signature.Results().At(0).Type()) {
			maybe := false
			okp := enumPaths(h, nil, nil, nil, func(e pathExit) {
				ret, isRet := e.Last.(*ssa.Return)
				if !isRet || len(ret.Results) != 1 || maybe {
					return
				}
				if errMaybeNil(e.State, ret.Results[0], d+1) {
					maybe = true
				}
			})
			return maybe || !okp
		}
	}
	if _, isMk := v.(*ssa.MakeInterface); isMk {
		return false
	}
	if u, ok := v.(*ssa.UnOp); ok {
		if _, isG := u.X.(*ssa.Global); isG {
			return false // a package-level sentinel (var ErrX = errors.New(...)): never nil
		}
		// an element of a package-level table of sentinels that only its initialiser assigns
		if ia, isIA := u.X.(*ssa.IndexAddr); isIA {
			for _, root := range provenance(ia.X, provOpts{}) {
				if l, isL := root.(*ssa.UnOp); isL {
					if g, isG := l.X.(*ssa.Global); isG && frozenGlobal(g) {
						return false
					}
				}
			}
		}
		// a result slot spilled because of a defer: `*slot = val; rundefers; t = *slot; return t`
		if al, isAl := u.X.(*ssa.Alloc); isAl && d < 4 {
			var last ssa.Value
			for _, in := range u.Block().Instrs {
				if in == ssa.Instruction(u) {
					break
				}
				if stv, ok := in.(*ssa.Store); ok && stv.Addr == ssa.Value(al) {
					last = stv.Val
				}
			}
			if last != nil {
				return errMaybeNil(st, last, d+1)
			}
		}
	}
	return true
}

// ruleNoNilResultWithNilError: in the configuration-parsing cone a function with results (T, error), T a
// pointer or interface, never returns a nil T together with an error that can be nil: its callers store the
// result and dereference it later (a nil Channel in the table panics in Find / at the first request).
// errors.Wrapf(err, ...) with err == nil is the classic way to get there.
func ruleNoNilResultWithNilError(w *World, r *Report, rule string, entries []*ssa.Function) {
	ruleNoNilResultWithNilErrorMsg(w, r, rule, entries, 3, "the caller takes the nil for a parsed object — a malformed definition is accepted and crashes later instead of being a configuration error")
}

func ruleNoNilResultWithNilErrorMsg(w *World, r *Report, rule string, entries []*ssa.Function, depth int, consequence string) {
	seen := map[*ssa.Function]bool{}
	var cone []*ssa.Function
	for _, e := range entries {
		for _, f := range staticCone(e, depth) {
			if !seen[f] {
				seen[f] = true
				cone = append(cone, f)
			}
		}
	}
	sort.Slice(cone, func(i, j int) bool { return cone[i].Pos() < cone[j].Pos() })
	n := 0
	for _, fn := range cone {
		res := fn.Signature.Results()
		if res.Len() != 2 || !isErrorType(res.At(1).Type()) {
			continue
		}
		switch res.At(0).Type().Underlying().(type) {
		case *types.Pointer, *types.Interface:
		default:
			continue
		}
		n++
		key := "func:" + ssaFuncKey(fn) + "|nil-result-nil-error"
		bad := ""
		okp := enumPaths(fn, nil, nil, nil, func(e pathExit) {
			ret, isRet := e.Last.(*ssa.Return)
			if !isRet || len(ret.Results) != 2 || bad != "" {
				return
			}
			if !isConstNil(e.State.Resolve(ret.Results[0])) {
				return
			}
			if errMaybeNil(e.State, ret.Results[1], 0) {
				bad = fmt.Sprintf("%s: returns a nil result together with an error that can be nil on this path (errors.Wrap*/WithStack of a nil error is nil): %s", w.Pos(ret.Pos()), consequence)
			}
		})
		if !okp {
			r.Undecided(rule, key, w.Pos(fn.Pos()), "path budget exceeded")
			continue
		}
		r.Check(bad == "", rule, key, w.Pos(fn.Pos()), "every return of a nil result carries an error that is provably non-nil", bad)
	}
	if n == 0 {
		r.Undecided(rule, "cone", "-", "no (T, error) function found in the parsing cone")
	}
}

// c16DirectDialCoversStreamNetworks: R16.9 — "the client first tries the listener's direct forward address if
// one is given". ConnectDirectly hands the forward address's scheme to net.Dial as the network. If the dial is
// guarded by tests of that scheme, the schemes that still reach it must include every stream network net.Dial
// knows (tcp, tcp4, tcp6, unix, unixpacket): an allow-list copied from somewhere else silently sends the other
// spellings through the upstreams (or nowhere).
func c16DirectDialCoversStreamNetworks(w *World, r *Report) {
	ruleDirectDialUsesSchemeAsNetwork(w, r, "R16.9")
}

func ruleDirectDialUsesSchemeAsNetwork(w *World, r *Report, rule string) {
	cd := w.SSAFunc(w.Method("internal/client/listener", "AbstractListener", "ConnectDirectly"))
	key := "method:(*client/listener.AbstractListener).ConnectDirectly|dial-networks"
	if cd == nil {
		r.Undecided(rule, key, "-", "anchor unresolved")
		return
	}
	required := []string{"tcp", "tcp4", "tcp6", "unix", "unixpacket"}
	isSchemeLoad := func(v ssa.Value) bool {
		for _, root := range provenance(v, provOpts{}) {
			if u, ok := root.(*ssa.UnOp); ok {
				if fa, ok := u.X.(*ssa.FieldAddr); ok {
					if fv := fieldVarOf(fa); fv != nil && fv.Name() == "Scheme" && fv.Pkg() != nil && fv.Pkg().Path() == "net/url" {
						return true
					}
				}
			}
		}
		return false
	}
	ndial := 0
	for _, fn := range staticCone(cd, 2) {
		for _, c := range callsIn(fn) {
			f := sCallee(c)
			if f == nil || f.Pkg() == nil || f.Pkg().Path() != "net" || (f.Name() != "Dial" && f.Name() != "DialTimeout") {
				continue
			}
			if !isSchemeLoad(c.Common().Args[0]) {
				continue
			}
			ndial++
			at := c.(ssa.Instruction)
			admitted := map[string]bool{}
			open := false // some path reaches the dial without a positive scheme test
			excluded := map[string]bool{}
			okp := enumPaths(fn, nil, nil, func(in ssa.Instruction) bool { return in == at }, func(e pathExit) {
				if e.Stop == nil {
					return
				}
				pos := ""
				var neg []string
				for v, t := range e.State.Facts {
					b, ok := v.(*ssa.BinOp)
					if !ok {
						continue
					}
					var other ssa.Value
					var cs string
					if s, ok := constStrVal(b.Y); ok && isSchemeLoad(b.X) {
						other, cs = b.X, s
					} else if s, ok := constStrVal(b.X); ok && isSchemeLoad(b.Y) {
						other, cs = b.Y, s
					}
					if other == nil {
						continue
					}
					isEq := (b.Op == token.EQL && t) || (b.Op == token.NEQ && !t)
					isNe := (b.Op == token.EQL && !t) || (b.Op == token.NEQ && t)
					if isEq {
						pos = cs
					} else if isNe {
						neg = append(neg, cs)
					}
				}
				if pos != "" {
					admitted[pos] = true
				} else {
					open = true
					for _, s := range neg {
						excluded[s] = true
					}
				}
			})
			if !okp {
				r.Undecided(rule, key, w.Pos(c.Pos()), "path budget exceeded")
				continue
			}
			var missing []string
			for _, s := range required {
				if admitted[s] || (open && !excluded[s]) {
					continue
				}
				missing = append(missing, s)
			}
			r.Check(len(missing) == 0, rule, key, w.Pos(c.Pos()), "every stream network net.Dial knows reaches the direct dial", fmt.Sprintf("the direct dial is not reached for forward addresses with scheme %v: such a listener never tries its forward address although one is given (its connections go through the upstreams, or nowhere when these are down)", missing))
		}
	}
	if ndial == 0 {
		r.Violate(rule, key, w.Pos(cd.Pos()), "ConnectDirectly no longer dials the forward address with its scheme as the network")
	}
}

func constStrVal(v ssa.Value) (string, bool) {
	c, ok := v.(*ssa.Const)
	if !ok || c.Value == nil || c.Value.Kind() != constant.String {
		return "", false
	}
	return constant.StringVal(c.Value), true
}

// ruleCloseDoesNotWaitForPeer: R14.7 — Close of a carrier wrapper is what the multiplexer's keep-alive time-out
// and every error path rely on to get the socket (and the goroutines blocked on it) back. It must not wait for
// the peer first: a write to the carrier inside Close — a goodbye frame, a flush — needs a bounded deadline,
// otherwise Close hangs behind a writer that is stuck on a dead carrier and the socket is never released.
func ruleCloseDoesNotWaitForPeer(w *World, r *Report, rule string) {
	n := 0
	for _, fn := range sortedModuleFuncs(w, w.SSA()) {
		if fn.Name() != "Close" || fn.Signature.Recv() == nil || fn.Pkg == nil || fn.Pkg.Pkg.Path() != modPath+"/internal/streams" {
			continue
		}
		n++
		key := "method:" + ssaFuncKey(fn) + "|no-unbounded-write"
		bad := ""
		for _, g := range staticCone(fn, 1) {
			for _, c := range callsIn(g) {
				cc := c.Common()
				name := ""
				var args []ssa.Value
				if cc.IsInvoke() {
					name, args = cc.Method.Name(), cc.Args
				} else if f := sCallee(c); f != nil && f.Type().(*types.Signature).Recv() != nil && !inModuleFunc(f) {
					name = f.Name()
					if len(cc.Args) > 0 {
						args = cc.Args[1:]
					}
				}
				switch name {
				case "WriteControl":
					// gorilla: a zero deadline means "wait (practically) forever" for the write lock and the write
					dl := args[len(args)-1]
					if cst, ok := dl.(*ssa.Const); ok && cst.Value == nil {
						bad = fmt.Sprintf("%s: Close sends a control frame with a zero deadline: gorilla/websocket then waits without bound for the connection's write lock and for the write itself — behind a writer stuck on a dead carrier Close never reaches the socket close that would release it", w.Pos(c.Pos()))
					}
				case "WriteMessage", "WriteJSON", "NextWriter", "Flush":
					armed := false
					if ci, ok := c.(ssa.Instruction); ok {
						for _, c2 := range callsIn(g) {
							if _, kind, zero, ok := dlCall(c2); ok && !zero && kind&dlWrite != 0 {
								if c2i, ok := c2.(ssa.Instruction); ok && c2i.Block().Dominates(ci.Block()) {
									armed = true
								}
							}
						}
					}
					if !armed {
						bad = fmt.Sprintf("%s: Close writes to the carrier (%s) without a write deadline: on a dead carrier whose send buffer is full this never returns, and the socket is not closed", w.Pos(c.Pos()), name)
					}
				}
			}
		}
		r.Check(bad == "", rule, key, w.Pos(fn.Pos()), "nothing in Close can wait for the peer without a bound before the carrier is closed", bad)
	}
	if n == 0 {
		r.Undecided(rule, "close:none", "-", "no Close method found in package streams")
	}
}

func inModuleFunc(f *types.Func) bool {
	return f.Pkg() != nil && strings.HasPrefix(f.Pkg().Path(), modPath)
}

// c11MandatoryStepsReportCommunicationErrors: R11.10 — Handshake reports success only if its mandatory steps
// did (R11.1). Inside a step that commits a probed value, an exchange with the server that failed with anything
// but the retry sentinel must make the step fail: a step that logs the error and returns nil lets Handshake report success
// with a parameter that was never established on the server (the server keeps its default, which nobody
// probed on this path).
func c11MandatoryStepsReportCommunicationErrors(w *World, r *Report) {
	rule := "R11.10"
	cdc := w.Named("internal/streams/dns", "ClientDnsConnection")
	hs := w.SSAFunc(methodOf(cdc, "Handshake"))
	qwd := w.SSAFunc(methodOf(cdc, "QueryWithData"))
	if hs == nil || qwd == nil {
		r.Undecided(rule, "anchor", "-", "anchor unresolved: Handshake / QueryWithData")
		return
	}
	reachesExchange := func(f *ssa.Function) bool {
		for _, g := range staticCone(f, 6) {
			if g == qwd {
				return true
			}
		}
		return false
	}
	// mandatory steps: module methods called by Handshake whose error result it returns
	var steps []*ssa.Function
	for _, c := range callsIn(hs) {
		call, ok := c.(*ssa.Call)
		if !ok {
			continue
		}
		sc := call.Call.StaticCallee()
		if sc == nil || !inModule(sc) || len(sc.Blocks) == 0 {
			continue
		}
		res := sc.Signature.Results()
		if res.Len() == 0 || !isErrorType(res.At(res.Len()-1).Type()) {
			continue
		}
		var errv ssa.Value = call
		if res.Len() > 1 {
			errv = nil
			for _, ref := range *call.Referrers() {
				if ex, ok := ref.(*ssa.Extract); ok && ex.Index == res.Len()-1 {
					errv = ex
				}
			}
		}
		if errv == nil {
			continue
		}
		// returned by Handshake somewhere?
		returned := false
		allInstrs(hs, func(in ssa.Instruction) {
			if ret, ok := in.(*ssa.Return); ok && len(ret.Results) == 1 {
				for _, root := range provenance(ret.Results[0], provOpts{}) {
					if root == errv {
						returned = true
					}
				}
			}
		})
		// only steps that COMMIT a value another step has probed (Handshake hands them that step's result): for
		// these there is no safe fall-back — what the server keeps instead was never tried on this path. Steps
		// that probe, or that switch between alternatives all of which were probed, may treat a failure as
		// "does not work" and fall back.
		commitsProbed := false
		for _, a := range call.Call.Args {
			for _, root := range provenance(a, provOpts{}) {
				if ex, ok := root.(*ssa.Extract); ok {
					if c2, ok := ex.Tuple.(*ssa.Call); ok && c2.Parent() == hs && c2.Call.StaticCallee() != nil && inModule(c2.Call.StaticCallee()) {
						commitsProbed = true
					}
				}
			}
		}
		if returned && commitsProbed && reachesExchange(sc) {
			steps = append(steps, sc)
		}
	}
	if len(steps) == 0 {
		r.Undecided(rule, "steps", "-", "no mandatory step of Handshake found")
		return
	}
	// a step may delegate one attempt to a helper: the helper is held to the same rule
	var units []*ssa.Function
	seenU := map[*ssa.Function]bool{}
	for _, step := range steps {
		for _, g := range staticCone(step, 1) {
			if !seenU[g] && g != qwd && (g == step || reachesExchange(g)) && !strings.HasPrefix(g.Name(), "Send") && !strings.HasPrefix(g.Name(), "Query") {
				seenU[g] = true
				units = append(units, g)
			}
		}
	}
	for _, step := range units {
		key := "step:" + ssaFuncKey(step) + "|communication-error-is-reported"
		// exchanges inside the step: calls of module functions with an error result that reach QueryWithData
		var exch []*ssa.Call
		for _, c := range callsIn(step) {
			call, ok := c.(*ssa.Call)
			if !ok {
				continue
			}
			sc := call.Call.StaticCallee()
			if sc == nil || !inModule(sc) || !reachesExchange(sc) {
				continue
			}
			res := sc.Signature.Results()
			if res.Len() >= 1 && isErrorType(res.At(res.Len()-1).Type()) {
				exch = append(exch, call)
			}
		}
		errOf := func(call *ssa.Call) ssa.Value {
			if call.Call.Signature().Results().Len() == 1 {
				return call
			}
			for _, ref := range *call.Referrers() {
				if ex, ok := ref.(*ssa.Extract); ok && ex.Index == call.Call.Signature().Results().Len()-1 {
					return ex
				}
			}
			return nil
		}
		bad := ""
		npaths := 0
		okp := enumPaths(step, nil, func(in ssa.Instruction) bool {
			for _, e := range exch {
				if in == ssa.Instruction(e) {
					return true
				}
			}
			return false
		}, nil, func(e pathExit) {
			ret, isRet := e.Last.(*ssa.Return)
			if !isRet || len(e.State.Events) == 0 || bad != "" {
				return
			}
			last := e.State.Events[len(e.State.Events)-1].(*ssa.Call)
			ev := errOf(last)
			if ev == nil {
				return
			}
			isNil, known := e.State.NilKnown(ev)
			if !known || isNil {
				return
			}
			// the retry sentinel (err == <package-level error>) is the step's own business
			for v, t := range e.State.Facts {
				b, ok := v.(*ssa.BinOp)
				if !ok || b.Op != token.EQL || !t {
					continue
				}
				for _, pair := range [][2]ssa.Value{{b.X, b.Y}, {b.Y, b.X}} {
					if pair[0] == ev {
						if u, ok := pair[1].(*ssa.UnOp); ok {
							if _, isG := u.X.(*ssa.Global); isG {
								return
							}
						}
					}
				}
			}
			npaths++
			if isConstNil(e.State.Resolve(ret.Results[len(ret.Results)-1])) {
				bad = fmt.Sprintf("%s: the step returns nil on a path where its exchange with the server (%s) failed with a communication error: Handshake goes on to report success although the server never received (or never confirmed) what this step negotiates", w.Pos(ret.Pos()), describeCall(last))
			}
		})
		if !okp {
			r.Undecided(rule, key, w.Pos(step.Pos()), "path budget exceeded")
			continue
		}
		r.Check(bad == "", rule, key, w.Pos(step.Pos()), fmt.Sprintf("%d exchange call(s); on each of the %d path(s) where the last one failed (not with the retry sentinel) the step returns an error", len(exch), npaths), bad)
	}
}

// ruleSecureFlagIsTheListenersOwn: the `secure` argument of the server-side handshake says "this carrier is
// already encrypted by our own TLS listener": StartTLS is then not offered and the client-certificate
// requirement is taken as enforced by that listener. Its value may only come from the server object's own flag
// (a field, a captured local set next to GetTlsConfig, a parameter fed by those) or a constant — never from
// anything the peer controls (a request header, a protocol field).
func ruleSecureFlagIsTheListenersOwn(w *World, r *Report, rule string) {
	acc := w.Func("internal/server", "AcceptConnection")
	nsc := w.Func("internal/socketace", "NewServerConnection")
	if acc == nil || nsc == nil {
		r.Undecided(rule, "anchor", "-", "anchor unresolved: server.AcceptConnection / socketace.NewServerConnection")
		return
	}
	n := 0
	var fns []*ssa.Function
	for _, fn := range sortedModuleFuncs(w, w.SSA()) {
		fns = append(fns, fn)
	}
	sort.Slice(fns, func(i, j int) bool { return fns[i].Pos() < fns[j].Pos() })
	var origins func(v ssa.Value, fn *ssa.Function, depth int, seen map[ssa.Value]bool) []string
	origins = func(v ssa.Value, fn *ssa.Function, depth int, seen map[ssa.Value]bool) []string {
		if v == nil || seen[v] || depth > 6 {
			return nil
		}
		seen[v] = true
		switch x := v.(type) {
		case *ssa.Const:
			return nil
		case *ssa.Phi:
			var out []string
			for _, e := range x.Edges {
				out = append(out, origins(e, fn, depth+1, seen)...)
			}
			return out
		case *ssa.BinOp:
			return append(origins(x.X, fn, depth+1, seen), origins(x.Y, fn, depth+1, seen)...)
		case *ssa.UnOp:
			if _, ok := x.X.(*ssa.FieldAddr); ok {
				return nil // a field of the server object
			}
			if _, ok := x.X.(*ssa.FreeVar); ok {
				return nil // a captured flag (R04.5 ties it to GetTlsConfig)
			}
			if al, ok := x.X.(*ssa.Alloc); ok {
				var out []string
				for _, st := range storesTo(al) {
					out = append(out, origins(st.Val, fn, depth+1, seen)...)
				}
				return out
			}
			return origins(x.X, fn, depth+1, seen)
		case *ssa.FreeVar:
			return nil
		case *ssa.Parameter:
			// follow to the static callers
			idx := paramIndex(x.Parent(), x)
			var out []string
			ncall := 0
			for _, g := range fns {
				for _, c := range callsIn(g) {
					if c.Common().StaticCallee() == x.Parent() && idx >= 0 && idx < len(c.Common().Args) {
						ncall++
						out = append(out, origins(c.Common().Args[idx], g, depth+1, seen)...)
					}
				}
			}
			if ncall == 0 {
				return nil // an entry point of the package API (tests, embedding programs)
			}
			return out
		case *ssa.Call:
			return []string{"the result of " + describeCall(x) + " at " + w.Pos(x.Pos())}
		}
		return []string{v.Name() + " at " + w.Pos(v.Pos())}
	}
	for _, fn := range fns {
		for _, c := range callsIn(fn) {
			f := sCallee(c)
			if f != acc && f != nsc {
				continue
			}
			args := c.Common().Args
			if len(args) < 3 {
				continue
			}
			n++
			key := fmt.Sprintf("call:%s@%s|secure-origin", f.Name(), ssaFuncKey(fn))
			bad := origins(args[2], fn, 0, map[ssa.Value]bool{})
			sort.Strings(bad)
			r.Check(len(bad) == 0, rule, key, w.Pos(c.Pos()), "the secure argument is the listener's own flag (field, captured flag, constant)",
				"the secure argument can come from "+strings.Join(bad, "; ")+": something other than the listener's own TLS flag claims an encrypted carrier — StartTLS is not offered and the client-certificate requirement is skipped for whoever supplies it")
		}
	}
	if n == 0 {
		r.Undecided(rule, "call:AcceptConnection", "-", "no call site found")
	}
}

// c04ClientTakesTheOffer: R04.11 — "when a server offers StartTLS on a carrier that is not already encrypted,
// the session is either upgraded to TLS or not established at all". On the client the decision is one boolean
// handed to the upgrade step. On every path of the client handshake on which the carrier is not already secure
// and the server's capabilities contain StartTLS, that boolean is true when the upgrade step is called (or the
// handshake has returned an error before): nothing local — a TLS configuration that cannot be loaded, an
// option — may turn the offer down and go on in clear text.
func c04ClientTakesTheOffer(w *World, r *Report) {
	rule := "R04.11"
	ncc := w.SSAFunc(w.Func("internal/socketace", "NewClientConnection"))
	cn := w.Named("internal/socketace", "ClientConnection")
	key := "func:socketace.NewClientConnection|offer-taken"
	if ncc == nil || cn == nil {
		r.Undecided(rule, key, "-", "anchor unresolved")
		return
	}
	// the upgrade step: the module callee in the handshake cone that takes (…, bool startTls, bool secure) and calls the TLS step
	secureP := -1
	for i, p := range ncc.Params {
		if b, ok := p.Type().Underlying().(*types.Basic); ok && b.Kind() == types.Bool {
			secureP = i
		}
	}
	if secureP < 0 {
		r.Undecided(rule, key, w.Pos(ncc.Pos()), "the client handshake has no boolean 'secure' parameter")
		return
	}
	secure := ncc.Params[secureP]
	// the field of the connection object that keeps the secure parameter (composite literal or assignment)
	var secureF *types.Var
	allInstrs(ncc, func(in ssa.Instruction) {
		if st, ok := in.(*ssa.Store); ok && st.Val == ssa.Value(secure) {
			if fa, ok := st.Addr.(*ssa.FieldAddr); ok {
				secureF = fieldVarOf(fa)
			}
		}
	})
	var up *ssa.Call
	var flagArg ssa.Value
	for _, c := range callsIn(ncc) {
		call, ok := c.(*ssa.Call)
		if !ok {
			continue
		}
		sc := call.Call.StaticCallee()
		if sc == nil || !inModule(sc) {
			continue
		}
		// a callee that receives the secure parameter and one more boolean, and whose cone performs tls.Client
		var bools []ssa.Value
		passesSecure := false
		for _, a := range call.Call.Args {
			if b, ok := a.Type().Underlying().(*types.Basic); ok && b.Kind() == types.Bool {
				if a == ssa.Value(secure) {
					passesSecure = true
				} else {
					bools = append(bools, a)
				}
			}
		}
		// the secure flag may travel in the connection object instead (`cc.secure`): then the one boolean is the decision
		if !passesSecure && len(bools) == 1 && secureF != nil {
			passesSecure = true
		}
		if !passesSecure || len(bools) != 1 {
			continue
		}
		hasTls := false
		for _, g := range staticCone(sc, 2) {
			for _, c2 := range callsIn(g) {
				if isPkgFunc(sCallee(c2), "crypto/tls", "Client") {
					hasTls = true
				}
			}
		}
		if hasTls {
			up, flagArg = call, bools[0]
		}
	}
	if up == nil {
		r.Undecided(rule, key, w.Pos(ncc.Pos()), "the upgrade step (receiving the secure parameter and the StartTLS decision) was not found")
		return
	}
	isOffer := func(v ssa.Value) bool {
		c, ok := v.(*ssa.Call)
		if !ok {
			return false
		}
		for _, a := range c.Call.Args {
			if s, ok := constStrVal(a); ok && strings.EqualFold(s, "STARTTLS") {
				return true
			}
			// the capability constant
			for _, root := range provenance(a, provOpts{}) {
				if s, ok := constStrVal(root); ok && strings.EqualFold(s, "STARTTLS") {
					return true
				}
			}
		}
		return false
	}
	bad := ""
	npaths := 0
	okp := enumPaths(ncc, nil, nil, func(in ssa.Instruction) bool { return in == ssa.Instruction(up) }, func(e pathExit) {
		if e.Stop == nil || bad != "" {
			return
		}
		if t, known := e.State.Truth(secure); known && t {
			return
		}
		fv := e.State.Resolve(flagArg)
		if isOffer(fv) {
			npaths++ // the decision IS the offer
			return
		}
		// the decision made by a predicate helper (`cc.wantsStartTls()`): it may answer false only where the carrier
		// is secure or the offer is absent
		if hc, ok := fv.(*ssa.Call); ok {
			if h := hc.Call.StaticCallee(); h != nil && inModule(h) && len(h.Blocks) > 0 && secureF != nil {
				helperOk, sawOffer := true, false
				okh := enumPaths(h, nil, nil, nil, func(e2 pathExit) {
					ret, isRet := e2.Last.(*ssa.Return)
					if !isRet || len(ret.Results) != 1 {
						return
					}
					rv := e2.State.Resolve(ret.Results[0])
					if isOffer(rv) {
						sawOffer = true
						return
					}
					if b, isC := constBool(rv); isC && b {
						return
					}
					for v, t := range e2.State.Facts {
						if t && isLoadOfField(v, secureF) {
							return // secure carrier: no StartTLS needed
						}
						if !t && (isOffer(v) || isOffer(e2.State.Resolve(v))) {
							sawOffer = true
							return // no offer
						}
						if t && (isOffer(v) || isOffer(e2.State.Resolve(v))) {
							sawOffer = true
						}
					}
					if b, isC := constBool(rv); isC && !b {
						helperOk = false
						return
					}
					if t, known := e2.State.Truth(rv); known && t {
						return
					}
					helperOk = false
				})
				if okh && sawOffer {
					npaths++
					if !helperOk {
						bad = fmt.Sprintf("%s: %s, which makes the StartTLS decision, can answer false although the carrier is not secure and the server offers StartTLS: the client turns the offer down for a local reason and establishes a clear-text session", w.Pos(h.Pos()), ssaFuncKey(h))
					}
					return
				}
			}
		}
		offered := false
		for v, t := range e.State.Facts {
			if t && (isOffer(v) || isOffer(e.State.Resolve(v))) {
				offered = true
			}
		}
		if !offered {
			return
		}
		npaths++
		if b, isC := constBool(fv); isC && b {
			return
		}
		if t, known := e.State.Truth(fv); known && t {
			return
		}
		bad = fmt.Sprintf("%s: the upgrade step is called with the StartTLS decision not true on a path where the carrier is not secure and the server offers StartTLS: the client turns the offer down for a local reason and establishes a clear-text session", w.Pos(up.Pos()))
	})
	if !okp {
		r.Undecided(rule, key, w.Pos(up.Pos()), "path budget exceeded")
		return
	}
	r.Check(bad == "" && npaths > 0, rule, key, w.Pos(up.Pos()), fmt.Sprintf("on all %d path(s) with an offer on an insecure carrier the upgrade step is told to start TLS", npaths), bad+mapStr(npaths == 0, "no path on which the server's StartTLS offer is seen"))
}

// ---------------------------------------------------------------------------------------------
// Round 7.

// ruleServerSessionClosers: the server's multiplexer session is shared by all logical connections of one
// physical link. The handler of a single logical connection (the go-target of the stream accept loop and
// everything it calls) never closes it: "the last one out" is not decidable from inside a handler — a sibling
// that has selected its channel and is still dialling is not counted yet.
func ruleServerSessionClosers(w *World, r *Report, rule string) {
	ch := w.Named("internal/server", "ConnectionHandler")
	sessF := fieldByType(ch, isSmuxSessionPtr)
	if ch == nil || sessF == nil {
		r.Undecided(rule, "anchor", "-", "anchor unresolved: server.ConnectionHandler.session")
		return
	}
	// per-stream handler cone: go targets inside stream accept loops, and handlers registered with the muxer
	roots := map[*ssa.Function]bool{}
	for _, al := range findAcceptLoops(w) {
		if al.Kind != "stream" {
			continue
		}
		for _, c := range callsIn(al.Fn) {
			g, ok := c.(*ssa.Go)
			if !ok {
				continue
			}
			if sc := g.Call.StaticCallee(); sc != nil {
				roots[sc] = true
			}
			if mc, ok := g.Call.Value.(*ssa.MakeClosure); ok {
				roots[mc.Fn.(*ssa.Function)] = true
			}
		}
	}
	if m := w.SSAFunc(w.Method("internal/server", "ConnectionHandler", "muxHandler")); m != nil {
		roots[m] = true
	}
	if len(roots) == 0 {
		r.Undecided(rule, "handlers", "-", "no per-stream handler found")
		return
	}
	var bad []string
	seen := map[*ssa.Function]bool{}
	n := 0
	var walk func(f *ssa.Function, d int)
	walk = func(f *ssa.Function, d int) {
		if f == nil || seen[f] || d > 5 || !inModule(f) || len(f.Blocks) == 0 {
			return
		}
		seen[f] = true
		n++
		for _, c := range callsIn(f) {
			if t := closeTarget(w, c); t != nil {
				for _, root := range provenance(t, provOpts{}) {
					if isLoadOfField(root, sessF) {
						bad = append(bad, fmt.Sprintf("%s: %s, which runs for ONE logical connection, closes the multiplexer session shared by all of them: connections that are still being opened (selected, dialling) and every stream negotiating at that moment are cut", w.Pos(c.Pos()), ssaFuncKey(f)))
					}
				}
			}
			if sc := c.Common().StaticCallee(); sc != nil {
				walk(sc, d+1)
			}
			if mc, ok := c.Common().Value.(*ssa.MakeClosure); ok {
				walk(mc.Fn.(*ssa.Function), d+1)
			}
		}
		for _, a := range f.AnonFuncs {
			walk(a, d+1)
		}
	}
	for f := range roots {
		walk(f, 0)
	}
	sort.Strings(bad)
	r.Check(len(bad) == 0, rule, "field:server.ConnectionHandler.session|closers", "-", fmt.Sprintf("%d function(s) in the per-stream handler cone, none closes the shared session", n), strings.Join(bad, "; "))
}

// ruleNoClientSessionResumption: the client re-reads its CA on every connection attempt, and crypto/tls does not
// re-verify the chain of a resumed session against the current RootCAs. A client session cache therefore lets a
// server in whose certificate the configured CA no longer vouches complete a TLS session.
func ruleNoClientSessionResumption(w *World, r *Report, rule string) {
	fld := tlsConfigField(w, "ClientSessionCache")
	if fld == nil {
		r.Undecided(rule, "anchor", "-", "anchor unresolved: tls.Config.ClientSessionCache")
		return
	}
	var bad []string
	for _, fn := range sortedModuleFuncs(w, w.SSA()) {
		allInstrs(fn, func(in ssa.Instruction) {
			st, ok := in.(*ssa.Store)
			if !ok {
				return
			}
			if fa, ok := st.Addr.(*ssa.FieldAddr); ok && fieldVarOf(fa) == fld && !isConstNil(st.Val) {
				bad = append(bad, fmt.Sprintf("%s: %s installs a TLS client session cache: a resumed session is not verified against the CA configured now (crypto/tls only re-checks expiry and host name), so a server whose CA was replaced is still accepted", w.Pos(st.Pos()), ssaFuncKey(fn)))
			}
		})
	}
	sort.Strings(bad)
	r.Check(len(bad) == 0, rule, "field:tls.Config.ClientSessionCache|writers", "-", "no TLS client session cache is installed anywhere: every session is verified against the CA configured at that moment", strings.Join(bad, "; "))
}

// c08CodecsLeaveTheirInputAlone: R08.11 — Encode and Decode read their argument and build their result; they
// never store into the argument's backing array (directly or in a helper that is handed the argument itself —
// a conversion []byte(x) of a []byte copies nothing). A Decode that translates its input in place destroys the
// encoded text: decoding it again (a duplicated answer, a retry, a verify-then-forward) yields other bytes.
func c08CodecsLeaveTheirInputAlone(w *World, r *Report) {
	encI := w.Interface("internal/util/enc", "Encoder")
	if encI == nil {
		r.Undecided("R08.11", "anchor", "-", "anchor unresolved: enc.Encoder")
		return
	}
	n := 0
	for _, t := range w.Implementers(encI) {
		if t.Obj().Pkg() == nil || !strings.HasSuffix(t.Obj().Pkg().Path(), "/internal/util/enc") {
			continue
		}
		for _, mname := range []string{"Encode", "Decode"} {
			fn := w.SSAFunc(methodOf(t, mname))
			if fn == nil || len(fn.Blocks) == 0 {
				continue
			}
			var input *ssa.Parameter
			for _, p := range fn.Params {
				if _, ok := p.Type().Underlying().(*types.Slice); ok {
					input = p
				}
			}
			if input == nil {
				continue
			}
			n++
			key := "codec:" + qualName(t) + "|" + mname + "-input-untouched"
			bad := ""
			cone := staticCone(fn, 2)
			for _, g := range cone {
				allInstrs(g, func(in ssa.Instruction) {
					st, ok := in.(*ssa.Store)
					if !ok || bad != "" {
						return
					}
					ia, ok := st.Addr.(*ssa.IndexAddr)
					if !ok {
						return
					}
					for _, root := range provWithCallers(ia.X, cone, 0) {
						if root == ssa.Value(input) {
							bad = fmt.Sprintf("%s: %s stores into the backing array of %s's argument: the caller's encoded (or original) bytes are overwritten — a second use of the same buffer sees other data", w.Pos(st.Pos()), ssaFuncKey(g), mname)
						}
					}
				})
				// copy(dst, ...) with dst = the argument
				for _, c := range callsIn(g) {
					if b, ok := c.Common().Value.(*ssa.Builtin); ok && b.Name() == "copy" && bad == "" {
						for _, root := range provWithCallers(c.Common().Args[0], cone, 0) {
							if root == ssa.Value(input) {
								bad = fmt.Sprintf("%s: %s copies into %s's argument", w.Pos(c.Pos()), ssaFuncKey(g), mname)
							}
						}
					}
				}
			}
			r.Check(bad == "", "R08.11", key, w.Pos(fn.Pos()), "nothing is stored into the argument's backing array", bad)
		}
	}
	if n == 0 {
		r.Undecided("R08.11", "codecs", "-", "no codec method with a slice argument found")
	}
}

// c07RefusedChunkLeavesQueueAlone: R07.20 — a chunk the in-queue refuses (outside the look-ahead window: a late
// duplicate of something long delivered, a replayed query) is an event about THAT chunk, not about the stream.
// On every path of InQueue.Append that returns a non-nil error nothing has been stored into the queue — in
// particular no sticky "broken" state that makes every later Append fail too.
func c07RefusedChunkLeavesQueueAlone(w *World, r *Report) {
	rule := "R07.20"
	inq := w.Named("internal/streams/dns/util", "InQueue")
	fn := w.SSAFunc(methodOf(inq, "Append"))
	key := "method:(*streams/dns/util.InQueue).Append|error-leaves-state"
	if fn == nil || len(fn.Params) == 0 {
		r.Undecided(rule, key, "-", "anchor unresolved: InQueue.Append")
		return
	}
	recv := fn.Params[0]
	storesRecv := func(g *ssa.Function, base ssa.Value) bool {
		found := false
		allInstrs(g, func(in ssa.Instruction) {
			if st, ok := in.(*ssa.Store); ok {
				v := st.Addr
				for {
					fa, ok := v.(*ssa.FieldAddr)
					if !ok {
						break
					}
					v = fa.X
				}
				if v == base && st.Addr != base {
					found = true
				}
			}
		})
		return found
	}
	isEvent := func(in ssa.Instruction) bool {
		if st, ok := in.(*ssa.Store); ok {
			v := st.Addr
			isField := false
			for {
				fa, ok := v.(*ssa.FieldAddr)
				if !ok {
					break
				}
				isField = true
				v = fa.X
			}
			return isField && v == ssa.Value(recv)
		}
		if c, ok := in.(*ssa.Call); ok {
			if sc := c.Call.StaticCallee(); sc != nil && inModule(sc) && len(c.Call.Args) > 0 && c.Call.Args[0] == ssa.Value(recv) && len(sc.Params) > 0 {
				for _, g := range staticCone(sc, 1) {
					if len(g.Params) > 0 && storesRecv(g, g.Params[0]) {
						return true
					}
				}
			}
		}
		return false
	}
	bad := ""
	nerr := 0
	okp := enumPaths(fn, nil, isEvent, nil, func(e pathExit) {
		ret, isRet := e.Last.(*ssa.Return)
		if !isRet || len(ret.Results) != 1 || bad != "" {
			return
		}
		if !(!errMaybeNil(e.State, ret.Results[0], 0)) {
			return // not a definite failure
		}
		nerr++
		if len(e.State.Events) > 0 {
			bad = fmt.Sprintf("%s: Append changes the queue (%s) on a path that refuses the chunk with an error: a single stale or replayed chunk leaves a mark that later, perfectly good chunks pay for", w.Pos(ret.Pos()), w.Pos(e.State.Events[0].Pos()))
		}
	})
	if !okp {
		r.Undecided(rule, key, w.Pos(fn.Pos()), "path budget exceeded")
		return
	}
	// and no failure that depends on queue state alone: an error return must be control-dependent on the chunk
	// (its sequence number), not only on fields of the queue
	sticky := ""
	enumPaths(fn, nil, nil, nil, func(e pathExit) {
		ret, isRet := e.Last.(*ssa.Return)
		if !isRet || len(ret.Results) != 1 || sticky != "" || errMaybeNil(e.State, ret.Results[0], 0) {
			return
		}
		dependsOnChunk := false
		for v := range e.State.Facts {
			for _, root := range provenance(v, provOpts{}) {
				_ = root
			}
			if usesParam(v, fn.Params[1], 0) {
				dependsOnChunk = true
			}
		}
		if !dependsOnChunk {
			sticky = fmt.Sprintf("%s: Append fails on a path whose conditions look only at the queue's own state, not at the chunk: once that state is reached every later chunk is refused", w.Pos(ret.Pos()))
		}
	})
	if bad == "" {
		bad = sticky
	}
	r.Check(bad == "" && nerr > 0, rule, key, w.Pos(fn.Pos()), fmt.Sprintf("%d failing path(s): each leaves the queue untouched and depends on the chunk offered", nerr), bad+mapStr(nerr == 0, "Append has no failing path (the out-of-window refusal is gone)"))
}

// usesParam: does the value v (a branch condition) depend on parameter p (through loads, field accesses, calls)?
func usesParam(v ssa.Value, p *ssa.Parameter, depth int) bool {
	if v == nil || depth > 8 {
		return false
	}
	if v == ssa.Value(p) {
		return true
	}
	in, ok := v.(ssa.Instruction)
	if !ok {
		return false
	}
	if _, isPhi := v.(*ssa.Phi); isPhi && depth > 3 {
		return false
	}
	for _, op := range in.Operands(nil) {
		if *op != nil && usesParam(*op, p, depth+1) {
			return true
		}
	}
	return false
}

// c06NoWriteIntoNilHeaderMap: R06.6 — a write into the header map of a message object that this function built
// itself (a fresh &Response{...} / &Request{...}) needs the map to have been set on that very object first: a
// literal without Headers has a nil map, and MIMEHeader.Set / Add on a nil map panic. Nothing recovers on the
// accept path, so one request that reaches such a branch kills the server.
func c06NoWriteIntoNilHeaderMap(w *World, r *Report) {
	rule := "R06.6"
	n := 0
	var fns []*ssa.Function
	for _, fn := range sortedModuleFuncs(w, w.SSA()) {
		if fn.Pkg != nil && fn.Pkg.Pkg.Path() == modPath+"/internal/socketace" {
			fns = append(fns, fn)
		}
	}
	sort.Slice(fns, func(i, j int) bool { return fns[i].Pos() < fns[j].Pos() })
	isMapField := func(fa *ssa.FieldAddr) bool {
		fv := fieldVarOf(fa)
		if fv == nil {
			return false
		}
		_, isMap := fv.Type().Underlying().(*types.Map)
		return isMap
	}
	for _, fn := range fns {
		ord := 0
		for _, c := range callsIn(fn) {
			call, ok := c.(*ssa.Call)
			if !ok {
				continue
			}
			f := sCallee(c)
			if f == nil || (f.Name() != "Set" && f.Name() != "Add") || len(call.Call.Args) == 0 {
				continue
			}
			if _, isMap := call.Call.Args[0].Type().Underlying().(*types.Map); !isMap {
				continue
			}
			// the map is loaded from a field of some object
			ld, ok := call.Call.Args[0].(*ssa.UnOp)
			if !ok {
				continue
			}
			fa, ok := ld.X.(*ssa.FieldAddr)
			if !ok || !isMapField(fa) {
				continue
			}
			n++
			fld := fieldVarOf(fa)
			key := fmt.Sprintf("call:%s.%s@%s#%d", fld.Name(), f.Name(), ssaFuncKey(fn), ord)
			ord++
			bad := ""
			okp := enumPaths(fn, nil, func(in ssa.Instruction) bool {
				st, ok := in.(*ssa.Store)
				if !ok {
					return false
				}
				fa2, ok := st.Addr.(*ssa.FieldAddr)
				return ok && fieldVarOf(fa2) == fld
			}, func(in ssa.Instruction) bool { return in == ssa.Instruction(call) }, func(e pathExit) {
				if e.Stop == nil || bad != "" {
					return
				}
				obj := e.State.Resolve(fa.X)
				al, isAlloc := obj.(*ssa.Alloc)
				if !isAlloc {
					return // an object that came from elsewhere (parsed, handed in): not judged here
				}
				set := false
				for _, ev := range e.State.Events {
					st := ev.(*ssa.Store)
					if e.State.Resolve(st.Addr.(*ssa.FieldAddr).X) == ssa.Value(al) && !isConstNil(st.Val) {
						set = true
					}
				}
				// the object is a copy of a package-level value: its map is THAT value's map, shared by every call
				if !set && al.Referrers() != nil {
					for _, ref := range *al.Referrers() {
						whole, ok := ref.(*ssa.Store)
						if !ok || whole.Addr != ssa.Value(al) {
							continue
						}
						if g := codecGlobal(whole.Val); g != nil {
							bad = fmt.Sprintf("%s: %s.%s writes into the %s of a copy of the package-level value %s (%s): copying the struct copies the map header, not the map — every handshake of the process writes the same map: what one connection's refusal stored is sent to the next, and two handshakes at once end the process with 'concurrent map writes'", w.Pos(call.Pos()), fld.Name(), f.Name(), fld.Name(), g.Name(), w.Pos(whole.Pos()))
							return
						}
					}
				}
				if !set {
					bad = fmt.Sprintf("%s: %s.%s is called on the %s of an object built at %s whose %s was never set on this path: a write into a nil map panics, and nothing on the accept path recovers — one peer request that reaches this branch ends the process", w.Pos(call.Pos()), fld.Name(), f.Name(), fld.Name(), w.Pos(al.Pos()), fld.Name())
				}
			})
			if !okp {
				r.Undecided(rule, key, w.Pos(call.Pos()), "path budget exceeded")
				continue
			}
			r.Check(bad == "", rule, key, w.Pos(call.Pos()), "on every path the object's map was set before it is written", bad)
		}
	}
	if n == 0 {
		r.Hold(rule, "calls:none", "-", "no header is written through a field of a message object (header maps are built separately and attached)")
	}
}

// c13LiveSlotBeforeRetiredRecord: R13.9 — identifiers are reused: the retired-session table can hold a record for
// the very slot (and the very address) a live session occupies now. The validation therefore answers "this
// session was closed" only where the live slot is empty: every path that returns on behalf of a retired record
// has found the live entry nil.
func c13LiveSlotBeforeRetiredRecord(w *World, r *Report) {
	rule := "R13.9"
	sl := w.Named("internal/streams/dns", "ServerDnsListener")
	uc := w.Named("internal/streams/dns", "userConnection")
	fn := w.SSAFunc(methodOf(sl, "validateAndGetUser"))
	key := "method:(*streams/dns.ServerDnsListener).validateAndGetUser|live-first"
	if sl == nil || uc == nil || fn == nil {
		r.Undecided(rule, key, "-", "anchor unresolved")
		return
	}
	var tables []*types.Var
	st := sl.Underlying().(*types.Struct)
	for i := 0; i < st.NumFields(); i++ {
		if slc, ok := st.Field(i).Type().(*types.Slice); ok {
			if p, ok := slc.Elem().(*types.Pointer); ok && types.Identical(p.Elem(), uc) {
				tables = append(tables, st.Field(i))
			}
		}
	}
	if len(tables) != 2 {
		r.Undecided(rule, key, w.Pos(fn.Pos()), "expected a live and a retired session table")
		return
	}
	live, retired := tables[0], tables[1]
	entryOf := func(v ssa.Value, tbl *types.Var) bool {
		for _, root := range provenance(v, provOpts{}) {
			u, ok := root.(*ssa.UnOp)
			if !ok {
				continue
			}
			ia, ok := u.X.(*ssa.IndexAddr)
			if !ok {
				continue
			}
			for _, r2 := range provenance(ia.X, provOpts{}) {
				if isLoadOfField(r2, tbl) {
					return true
				}
			}
		}
		return false
	}
	bad := ""
	nret := 0
	for _, g := range staticCone(fn, 2) {
		okp := enumPaths(g, nil, nil, nil, func(e pathExit) {
			ret, isRet := e.Last.(*ssa.Return)
			if !isRet || len(ret.Results) == 0 || bad != "" {
				return
			}
			// does this path answer on behalf of a retired record? (it found a retired entry non-nil)
			usesRetired := false
			for v, t := range e.State.Facts {
				if x, eqNil, ok := nilTest(v); ok && t != eqNil && entryOf(x, retired) {
					usesRetired = true
				}
			}
			if !usesRetired {
				return
			}
			nret++
			liveNil := false
			for v, t := range e.State.Facts {
				if x, eqNil, ok := nilTest(v); ok && t == eqNil && entryOf(x, live) {
					liveNil = true
				}
			}
			if !liveNil && g == fn {
				bad = fmt.Sprintf("%s: a retired record decides the answer on a path that has not found the live slot empty: after a slot is reused from the same address, the live session is answered 'closed' (BADCONN) for ever — terminated by an earlier session's closing", w.Pos(ret.Pos()))
			}
		})
		if !okp {
			r.Undecided(rule, key, w.Pos(fn.Pos()), "path budget exceeded")
			return
		}
	}
	// a retired-table lookup moved into a helper: the helper's call site must lie under "live entry == nil"
	for _, c := range callsIn(fn) {
		sc := c.Common().StaticCallee()
		if sc == nil || !inModule(sc) || sc == fn {
			continue
		}
		touches := false
		allInstrs(sc, func(in ssa.Instruction) {
			if v, ok := in.(ssa.Value); ok && isLoadOfField(v, retired) {
				touches = true
			}
		})
		if !touches {
			continue
		}
		nret++
		ci, _ := c.(ssa.Instruction)
		if !dominatedByCondNil(fn, ci, func(v ssa.Value) bool {
			x, _, ok := nilTest(v)
			return ok && entryOf(x, live)
		}) && !dominatedByCond(fn, ci, func(v ssa.Value) bool {
			x, eqNil, ok := nilTest(v)
			return ok && eqNil && entryOf(x, live)
		}, true) && bad == "" {
			bad = fmt.Sprintf("%s: the retired-session lookup (%s) is not confined to the branch where the live slot is empty", w.Pos(c.Pos()), ssaFuncKey(sc))
		}
	}
	r.Check(bad == "" && nret > 0, rule, key, w.Pos(fn.Pos()), fmt.Sprintf("%d place(s) where a retired record decides, each under 'live slot empty'", nret), bad+mapStr(nret == 0, "no path consults the retired table (a closed session's identifier is no longer recognised)"))
}

// ruleUnescaperRegexpsAnchored: the name unescaper decides the width of its next step with a regular expression
// over the REST of the name (`\DDD` = backslash + three digits). Such an expression must be anchored at the
// start: unanchored, three digits anywhere later in the name turn a two-byte escape into a four-byte one.
func ruleUnescaperRegexpsAnchored(w *World, r *Report, rule string) {
	sd := w.SSAFunc(w.Func("internal/streams/dns/commands", "StripDomain"))
	if sd == nil {
		r.Undecided(rule, "func:commands.StripDomain|regexps", "-", "anchor unresolved")
		return
	}
	p := w.Pkg("internal/streams/dns/commands")
	n := 0
	var bad []string
	seenG := map[*ssa.Global]bool{}
	for _, g := range staticCone(sd, 2) {
		allInstrs(g, func(in ssa.Instruction) {
			for _, op := range in.Operands(nil) {
				gl, ok := (*op).(*ssa.Global)
				if !ok || seenG[gl] {
					continue
				}
				if pt, ok := gl.Type().(*types.Pointer); !ok || !strings.HasSuffix(pt.Elem().String(), "regexp.Regexp") {
					continue
				}
				seenG[gl] = true
				// its pattern: the constant handed to regexp.MustCompile in the declaration
				pat, found := "", false
				for _, f := range p.Syntax {
					ast.Inspect(f, func(x ast.Node) bool {
						vs, ok := x.(*ast.ValueSpec)
						if !ok {
							return true
						}
						for i, nm := range vs.Names {
							if p.TypesInfo.Defs[nm] == gl.Object() && i < len(vs.Values) {
								if call, ok := vs.Values[i].(*ast.CallExpr); ok && len(call.Args) == 1 {
									if sv, ok := constStr(p.TypesInfo, call.Args[0]); ok {
										pat, found = sv, true
									}
								}
							}
						}
						return true
					})
				}
				n++
				if !found {
					bad = append(bad, fmt.Sprintf("%s: the pattern of %s is not a constant", w.Pos(gl.Pos()), gl.Name()))
				} else if !strings.HasPrefix(pat, "^") && !strings.HasPrefix(pat, `\A`) {
					bad = append(bad, fmt.Sprintf("%s: the pattern %q of %s, which the name unescaper applies to the rest of the name, is not anchored at the start: digits anywhere later in the name are taken for a \\DDD escape here, and four bytes are consumed where two were meant — the server decodes another payload than the client sent", w.Pos(gl.Pos()), pat, gl.Name()))
				}
			}
		})
	}
	sort.Strings(bad)
	// no regular expression at all (the digits tested by hand) leaves nothing to anchor: R09.5 / R11.x decide the width then
	r.Check(len(bad) == 0, rule, "func:commands.StripDomain|regexps", w.Pos(sd.Pos()), fmt.Sprintf("%d regular expression(s) used by the unescaper, each anchored at the start", n), strings.Join(bad, "; "))
}

// ruleHeaderListElementsTrimmed: header lists are "token *( OWS "," OWS token )": the splitter must not leave
// optional white space glued to the elements, because the capability test compares elements with ==. A
// StartTLS offer written "Keepalive, StartTLS" would not be recognised, and the session goes on in clear text.
func ruleHeaderListElementsTrimmed(w *World, r *Report, rule string) {
	sf := w.Func("internal/util/mime", "SplitField")
	fn := w.SSAFunc(sf)
	key := "func:util/mime.SplitField|ows"
	if fn == nil {
		r.Undecided(rule, key, "-", "anchor unresolved: mime.SplitField")
		return
	}
	p := w.Pkg("internal/util/mime")
	ok, why := false, "the elements are neither produced by a regular expression that swallows the white space around the comma nor trimmed one by one"
	for _, g := range staticCone(fn, 1) {
		for _, c := range callsIn(g) {
			f := sCallee(c)
			if f == nil {
				continue
			}
			// regexp.Split with a pattern of the form \s*,\s*
			if f.Name() == "Split" && f.Pkg() != nil && f.Pkg().Path() == "regexp" {
				for _, root := range provenance(c.Common().Args[0], provOpts{}) {
					u, isU := root.(*ssa.UnOp)
					if !isU {
						continue
					}
					gl, isG := u.X.(*ssa.Global)
					if !isG {
						continue
					}
					for _, file := range p.Syntax {
						ast.Inspect(file, func(x ast.Node) bool {
							vs, isVs := x.(*ast.ValueSpec)
							if !isVs {
								return true
							}
							for i, nm := range vs.Names {
								if p.TypesInfo.Defs[nm] == gl.Object() && i < len(vs.Values) {
									if call, isCall := vs.Values[i].(*ast.CallExpr); isCall && len(call.Args) == 1 {
										if sv, isS := constStr(p.TypesInfo, call.Args[0]); isS {
											if strings.HasPrefix(sv, `\s*`) && strings.HasSuffix(sv, `\s*`) && strings.Contains(sv, ",") {
												ok = true
											} else {
												why = fmt.Sprintf("the separator pattern %q does not swallow white space on both sides of the comma", sv)
											}
										}
									}
								}
							}
							return true
						})
					}
				}
			}
			// strings.Split followed by a TrimSpace of every element (inside a loop over the result)
			if f.Name() == "TrimSpace" && f.Pkg() != nil && f.Pkg().Path() == "strings" {
				if call, isCall := c.(*ssa.Call); isCall && cycleThrough(call.Block()) != nil {
					ok = true
				}
			}
		}
	}
	r.Check(ok, rule, key, w.Pos(sf.Pos()), "list elements come out without the optional white space around the commas", why+": a capability written with a blank beside the comma (\"Keepalive, StartTLS\") is not recognised by the == comparison, the client does not ask for StartTLS and the session stays in clear text")
}

// c16NoRoundIsSkipped: R16.10 — "after that session is lost the next local connection transparently establishes
// a new one". In Upstreams.Connect, whenever the LAST test of the shared connection on a path says there is no
// usable session, the round over the upstreams (open) is actually run before Connect returns: no path skips it
// (a hold-off after a failed round turns away exactly the connection that would have found the server back).
// The test may live in Connect or in a helper (`ensureOpen`), and may be made twice (double-checked locking: the
// test repeated under the lock is the one that counts).
func c16NoRoundIsSkipped(w *World, r *Report, uc, openM *types.Func) {
	rule := "R16.10"
	fn := w.SSAFunc(uc)
	key := "method:(*client/upstream.Upstreams).Connect|round-always-run"
	if fn == nil || openM == nil {
		r.Undecided(rule, key, "-", "anchor unresolved")
		return
	}
	_, connF, _ := upstreamsSharedFields(w)
	unusableFact := func(v ssa.Value, t bool) (isTest, unusable bool) {
		if x, eqNil, ok := nilTest(v); ok && isLoadOfField(x, connF) {
			return true, t == eqNil
		}
		if c, ok := v.(*ssa.Call); ok && c.Call.IsInvoke() && c.Call.Method.Name() == "Closed" {
			for _, root := range provenance(c.Call.Value, provOpts{}) {
				if isLoadOfField(root, connF) {
					return true, t
				}
			}
		}
		return false, false
	}
	// does the last test of the connection on this path say "no usable session"?
	needAt := func(e pathExit) bool {
		posOf := func(v ssa.Value) int {
			in, ok := v.(ssa.Instruction)
			if !ok {
				return -1
			}
			p := -1
			for i, b := range e.State.Blocks {
				if b == in.Block() {
					p = i
				}
			}
			return p*1000 + instrIndex(in)
		}
		best, need := -1, false
		for v, t := range e.State.Facts {
			if isTest, un := unusableFact(v, t); isTest {
				if p := posOf(v); p > best {
					best, need = p, un
				}
				continue
			}
			// the test inside a predicate helper
			if hc, ok := v.(*ssa.Call); ok {
				if h := hc.Call.StaticCallee(); h != nil && inModule(h) && len(h.Blocks) > 0 {
					touches := false
					allInstrs(h, func(in ssa.Instruction) {
						if val, ok := in.(ssa.Value); ok && isLoadOfField(val, connF) {
							touches = true
						}
					})
					if !touches {
						continue
					}
					un := predicateHelperImplies(h, t, func(facts map[ssa.Value]bool) bool {
						for v2, t2 := range facts {
							if isTest, u2 := unusableFact(v2, t2); isTest && u2 {
								return true
							}
						}
						return false
					})
					if p := posOf(v); p > best {
						best, need = p, un
					}
				}
			}
		}
		return need
	}
	// per function: on every return path whose last test says "unusable", open (or something that always runs it) ran
	var analyse func(g *ssa.Function, depth int) (bad string, nneed int, opens bool, ok bool)
	memo := map[*ssa.Function][4]interface{}{}
	analyse = func(g *ssa.Function, depth int) (string, int, bool, bool) {
		if m, have := memo[g]; have {
			return m[0].(string), m[1].(int), m[2].(bool), m[3].(bool)
		}
		handled := map[ssa.Instruction]bool{} // calls that take care of the round themselves
		opens := false
		for _, c := range callsIn(g) {
			ci := c.(ssa.Instruction)
			if sCallee(c) == openM {
				handled[ci] = true
				opens = true
				continue
			}
			sc := c.Common().StaticCallee()
			if sc == nil || !inModule(sc) || sc == g || depth >= 2 {
				continue
			}
			if _, isGo := c.(*ssa.Go); isGo {
				continue
			}
			hb, hn, ho, hok := analyse(sc, depth+1)
			if ho && hok && hb == "" {
				// the helper runs the round on all its paths (hn == 0: no test inside) or on all paths of its own
				// that find no usable session
				handled[ci] = true
				opens = true
				_ = hn
			} else if ho && hb != "" {
				memo[g] = [4]interface{}{hb, 0, true, true}
				return hb, 0, true, true
			}
		}
		bad := ""
		nneed := 0
		okp := enumPaths(g, nil, func(in ssa.Instruction) bool { return handled[in] }, nil, func(e pathExit) {
			if _, isRet := e.Last.(*ssa.Return); !isRet || bad != "" {
				return
			}
			tests := false
			for v, t := range e.State.Facts {
				if isTest, _ := unusableFact(v, t); isTest {
					tests = true
				}
			}
			if g != fn && !tests {
				// a helper without a test of its own: it must run the round on every path if it runs it at all
				if opens && len(e.State.Events) == 0 {
					bad = fmt.Sprintf("%s: %s runs the round over the upstreams only on some of its paths, and not depending on whether a usable session exists: Connect can come back without having tried although no usable session exists", w.Pos(g.Pos()), ssaFuncKey(g))
				}
				return
			}
			if !needAt(e) {
				return
			}
			nneed++
			if len(e.State.Events) == 0 {
				bad = fmt.Sprintf("%s can return on a path where the last test found no usable session and the round over the upstreams was not run (e.g. a hold-off after an earlier failure): a local connection is turned away although a server may be reachable again — the client does not re-establish the session 'transparently', and with connections arriving often enough, never", ssaFuncKey(g))
			}
		})
		memo[g] = [4]interface{}{bad, nneed, opens, okp}
		return bad, nneed, opens, okp
	}
	bad, nneed, opens, okp := analyse(fn, 0)
	if !okp {
		r.Undecided(rule, key, w.Pos(fn.Pos()), "path budget exceeded")
		return
	}
	if !opens {
		r.Violate(rule, key, w.Pos(fn.Pos()), "Connect never runs the round over the upstreams")
		return
	}
	r.Check(bad == "", rule, key, w.Pos(fn.Pos()), fmt.Sprintf("wherever the last test of the shared connection finds no usable session (%d path(s) in Connect), the round over the upstreams is run", nneed), bad)
}

// c18DnsServerStartKeepsTls: R18.9 — a DNS endpoint written "+tls" is DNS over TLS because miekg's ListenAndServe
// builds a TLS listener for the "-tls" networks from TLSConfig. A server that is started on a socket bound by
// the caller (ActivateAndServe) serves whatever listener it was given: the listener handed over must then be
// able to be a TLS listener (tls.NewListener / tls.Listen among its origins), or the secure endpoint speaks
// clear-text DNS over TCP while the configuration says TLS.
func c18DnsServerStartKeepsTls(w *World, r *Report) {
	rule := "R18.9"
	key := "type:miekg/dns.Server|start-keeps-tls"
	prog := w.SSA()
	mods := allModuleFuncs(w, prog)
	var fns []*ssa.Function
	for f := range mods {
		fns = append(fns, f)
	}
	sort.Slice(fns, func(i, j int) bool { return fns[i].Pos() < fns[j].Pos() })
	isDnsServerMethod := func(f *types.Func, name string) bool {
		if f == nil || f.Name() != name || f.Pkg() == nil || !strings.HasSuffix(f.Pkg().Path(), "miekg/dns") {
			return false
		}
		sig := f.Type().(*types.Signature)
		return sig.Recv() != nil && strings.HasSuffix(sig.Recv().Type().String(), "dns.Server")
	}
	nListen, nActivate := 0, 0
	actPos := "-"
	tlsStore, plainStore := 0, ""
	for _, f := range fns {
		allInstrs(f, func(in ssa.Instruction) {
			if c, ok := in.(ssa.CallInstruction); ok {
				if isDnsServerMethod(sCallee(c), "ListenAndServe") {
					nListen++
				}
				if isDnsServerMethod(sCallee(c), "ActivateAndServe") {
					nActivate++
					actPos = w.Pos(c.Pos())
				}
			}
			st, ok := in.(*ssa.Store)
			if !ok {
				return
			}
			fa, ok := st.Addr.(*ssa.FieldAddr)
			if !ok {
				return
			}
			fv := fieldVarOf(fa)
			if fv == nil || fv.Name() != "Listener" || fv.Pkg() == nil || !strings.HasSuffix(fv.Pkg().Path(), "miekg/dns") {
				return
			}
			isTls := false
			for _, root := range provInter(st.Val, 2) {
				var call *ssa.Call
				switch x := root.(type) {
				case *ssa.Call:
					call = x
				case *ssa.Extract:
					call, _ = x.Tuple.(*ssa.Call)
				}
				if call == nil {
					continue
				}
				if f2 := sCallee(call); f2 != nil && f2.Pkg() != nil && f2.Pkg().Path() == "crypto/tls" && (f2.Name() == "NewListener" || f2.Name() == "Listen") {
					isTls = true
				}
			}
			if isTls {
				tlsStore++
			} else if plainStore == "" {
				plainStore = w.Pos(st.Pos())
			}
		})
	}
	if nActivate == 0 {
		r.Check(nListen > 0, rule, key, "-", fmt.Sprintf("the DNS server is started with ListenAndServe (%d site(s)), which builds the TLS listener for the -tls networks itself", nListen), "the DNS server is never started")
		return
	}
	r.Check(tlsStore > 0, rule, key, actPos, fmt.Sprintf("the server is activated on a listener that can be a TLS listener (%d store(s) from crypto/tls)", tlsStore),
		fmt.Sprintf("the DNS server is started with ActivateAndServe on a listener bound by the caller (%s), and no listener handed to it comes from crypto/tls: ActivateAndServe ignores Net \"tcp-tls\" and TLSConfig, so an endpoint configured dns+tcp+tls answers clear-text DNS over TCP", plainStore))
}

// c04TlsConfigNeverNilOnSuccess: R04.13 — callers of a certificate manager test only the error: `(nil, nil)` from
// GetTlsConfig makes an endpoint configured for TLS skip its TLS step (the stdio server wraps the carrier only
// `if tlsConfig != nil`) or dereference nil. Every return of a nil configuration carries a non-nil error.
func c04TlsConfigNeverNilOnSuccess(w *World, r *Report, rule string) {
	ti := w.Interface("internal/util/cert", "TlsConfig")
	if ti == nil {
		r.Undecided(rule, "anchor", "-", "anchor unresolved: cert.TlsConfig")
		return
	}
	var entries []*ssa.Function
	for _, n := range w.Implementers(ti) {
		if m := methodOf(n, "GetTlsConfig"); m != nil {
			if fn := w.SSAFunc(m); fn != nil && inModule(fn) {
				entries = append(entries, fn)
			}
		}
	}
	sort.Slice(entries, func(i, j int) bool { return entries[i].Pos() < entries[j].Pos() })
	if len(entries) == 0 {
		r.Undecided(rule, "anchor", "-", "no GetTlsConfig implementation found")
		return
	}
	ruleNoNilResultWithNilErrorMsg(w, r, rule, entries, 0, "the callers test only the error — an endpoint configured for TLS then skips its TLS step (`if tlsConfig != nil`) and completes a clear-text session that it reports as secure, or dereferences nil")
}

// c05WebsocketTlsDialHasManagerConfig: R05.14 — gorilla's Dialer performs a TLS handshake for every "wss" URL, with
// TLSClientConfig if there is one and with an EMPTY tls.Config (system roots, no client certificate, no
// --insecure) if it is nil. The carrier's `secure` verdict — the boolean that gates fetching the manager's
// configuration and that is handed to NewClientConnection — is what decides whether a configuration is there.
// So wherever the scheme is classified (in Connect, or in a helper returning the dial scheme and the verdict):
// every path with the verdict false has made sure the URL is not a "wss" one — it set the scheme to "ws", or it
// compared the scheme with "wss" and took the false edge.
func c05WebsocketTlsDialHasManagerConfig(w *World, r *Report) {
	rule := "R05.14"
	ncc := w.Func("internal/socketace", "NewClientConnection")
	n := 0
	isSchemeAddr := func(v ssa.Value) bool {
		fa, ok := v.(*ssa.FieldAddr)
		if !ok {
			return false
		}
		fv := fieldVarOf(fa)
		return fv != nil && fv.Name() == "Scheme" && fv.Pkg() != nil && fv.Pkg().Path() == "net/url"
	}
	schemeLike := func(fn *ssa.Function, v ssa.Value) bool {
		for _, root := range provenance(v, provOpts{}) {
			if u, isU := root.(*ssa.UnOp); isU && isSchemeAddr(u.X) {
				return true
			}
			if p, isP := root.(*ssa.Parameter); isP && p.Parent() == fn {
				if b, ok := p.Type().Underlying().(*types.Basic); ok && b.Info()&types.IsString != 0 {
					return true
				}
			}
		}
		return false
	}
	excludesWss := func(fn *ssa.Function, st *pathState) bool {
		for v, t := range st.Facts {
			if !t && tableMissExcludes(w, v, "wss") {
				return true // the lookup in a scheme table that has a "wss" entry missed
			}
			b, ok := v.(*ssa.BinOp)
			if !ok || b.Op != token.EQL || t {
				continue
			}
			for _, pair := range [][2]ssa.Value{{b.X, b.Y}, {b.Y, b.X}} {
				if s, isC := constStrVal(pair[1]); isC && s == "wss" && schemeLike(fn, pair[0]) {
					return true
				}
			}
		}
		return false
	}
	const consequence = ": gorilla dials wss:// with an empty tls.Config then — the system trust store instead of the configured CA, no client certificate, --insecure ignored: a server of any system-trusted authority is accepted and the one of the configured private CA is refused"
	for _, fn := range sortedFuncs(allModuleFuncs(w, w.SSA())) {
		var dial ssa.CallInstruction
		for _, c := range callsIn(fn) {
			f := sCallee(c)
			if f != nil && f.Pkg() != nil && strings.HasSuffix(f.Pkg().Path(), "gorilla/websocket") && (f.Name() == "Dial" || f.Name() == "DialContext") && f.Type().(*types.Signature).Recv() != nil {
				dial = c
			}
		}
		if dial == nil {
			continue
		}
		n++
		key := "call:websocket.Dialer.Dial@" + ssaFuncKey(fn)
		pos := w.Pos(dial.Pos())
		// the verdict: the boolean this function hands to NewClientConnection
		var secure ssa.Value
		for _, c := range callsIn(fn) {
			if sCallee(c) != ncc {
				continue
			}
			for _, a := range c.Common().Args {
				if b, ok := a.Type().Underlying().(*types.Basic); ok && b.Kind() == types.Bool {
					secure = a
				}
			}
		}
		// ... or hands to a helper that passes it on to NewClientConnection
		if secure == nil {
			for _, c := range callsIn(fn) {
				h := c.Common().StaticCallee()
				if h == nil || !inModule(h) || len(h.Blocks) == 0 {
					continue
				}
				for _, c2 := range callsIn(h) {
					if sCallee(c2) != ncc {
						continue
					}
					for _, a := range c2.Common().Args {
						if b, ok := a.Type().Underlying().(*types.Basic); !ok || b.Kind() != types.Bool {
							continue
						}
						for _, root := range provenance(a, provOpts{}) {
							if pp, isP := root.(*ssa.Parameter); isP {
								if idx := paramIndex(h, pp); idx >= 0 && idx < len(c.Common().Args) {
									secure = c.Common().Args[idx]
								}
							}
						}
					}
				}
			}
		}
		if secure == nil {
			r.Undecided(rule, key, pos, "the function that dials the websocket does not hand a secure verdict to NewClientConnection (idiom not recognised)")
			continue
		}
		// (a) the verdict comes out of a classification helper together with the dial scheme
		if ex, ok := secure.(*ssa.Extract); ok {
			if hc, ok := ex.Tuple.(*ssa.Call); ok {
				if h := hc.Call.StaticCallee(); h != nil && inModule(h) && len(h.Blocks) > 0 {
					bad := ""
					nf := 0
					okp := enumPaths(h, nil, nil, nil, func(e pathExit) {
						ret, isRet := e.Last.(*ssa.Return)
						if !isRet || bad != "" || ex.Index >= len(ret.Results) {
							return
						}
						verdict := e.State.Resolve(ret.Results[ex.Index])
						if b, isC := constBool(verdict); isC && b {
							return
						}
						nf++
						for _, res := range ret.Results {
							if s, isC := constStrVal(e.State.Resolve(res)); isC && s == "ws" {
								return
							}
						}
						if excludesWss(h, e.State) {
							return
						}
						bad = fmt.Sprintf("%s: %s can answer 'not secure' on a path that has neither set the dial scheme to \"ws\" nor excluded \"wss\"", w.Pos(ret.Pos()), ssaFuncKey(h))
					})
					if !okp {
						r.Undecided(rule, key, pos, "path budget exceeded")
						continue
					}
					r.Check(bad == "" && nf > 0, rule, key, pos, fmt.Sprintf("the scheme classifier %s answers 'not secure' on %d path(s), each with the scheme known not to be wss", ssaFuncKey(h), nf), bad+mapStr(nf == 0 && bad == "", "the classifier never answers 'not secure' (idiom not recognised)")+consequence)
					continue
				}
			}
		}
		// (b) classified in this function
		isSchemeStore := func(in ssa.Instruction) bool {
			st, ok := in.(*ssa.Store)
			return ok && isSchemeAddr(st.Addr)
		}
		bad := ""
		npaths, nplain := 0, 0
		undec := ""
		okp := enumPaths(fn, nil, isSchemeStore, func(in ssa.Instruction) bool { return in == dial.(ssa.Instruction) }, func(e pathExit) {
			if e.Stop == nil || bad != "" {
				return
			}
			npaths++
			verdict := e.State.Resolve(secure)
			b, isC := constBool(verdict)
			if isC && b {
				return
			}
			if !isC {
				// the verdict read from a constant scheme table: every entry that says 'not secure' names a scheme other than wss
				if entries, field, _ := tableFieldLookup(w, verdict); entries != nil {
					for _, en := range entries {
						if sec, ok := en.Fields[field]; ok && sec.Kind() == constant.Bool && !constant.BoolVal(sec) {
							for fname, fv := range en.Fields {
								if fv.Kind() == constant.String && constant.StringVal(fv) == "wss" {
									bad = fmt.Sprintf("the scheme table maps %q to the dial scheme \"wss\" (field %s) with the verdict 'not secure'", en.Key, fname)
								}
							}
						}
					}
					return
				}
				if t, known := e.State.Truth(verdict); known {
					if t {
						return
					}
				} else {
					undec = "the secure verdict is not a constant on a path to Dial: " + describeValue(w, verdict)
					return
				}
			}
			nplain++
			if k := len(e.State.Events); k > 0 {
				last := e.State.Events[k-1].(*ssa.Store)
				if s, isS := constStrVal(e.State.Resolve(last.Val)); isS && s == "ws" {
					return
				}
				bad = fmt.Sprintf("%s: the URL scheme was last set to %s on a path that reaches Dial with the verdict 'not secure'", w.Pos(last.Pos()), describeValue(w, last.Val))
				return
			}
			if excludesWss(fn, e.State) {
				return
			}
			bad = "a path reaches Dial with the verdict 'not secure' (no TLS configuration) without having excluded the scheme \"wss\""
		})
		if !okp {
			r.Undecided(rule, key, pos, "path budget exceeded")
			continue
		}
		if undec != "" && bad == "" {
			r.Undecided(rule, key, pos, undec)
			continue
		}
		r.Check(bad == "", rule, key, pos, fmt.Sprintf("%d path(s) to Dial, %d with the verdict 'not secure', each of those with the scheme known not to be wss", npaths, nplain), bad+consequence)
	}
	if n == 0 {
		r.Hold(rule, "call:websocket.Dialer.Dial", "-", "the module dials no websocket")
	}
}

func sortedFuncs(m map[*ssa.Function]bool) []*ssa.Function {
	var out []*ssa.Function
	for f := range m {
		out = append(out, f)
	}
	sort.Slice(out, func(i, j int) bool {
		if out[i].Pos() != out[j].Pos() {
			return out[i].Pos() < out[j].Pos()
		}
		return out[i].String() < out[j].String()
	})
	return out
}

// c06NoPanicOnPeerWriteFault: R06.7 — the handshake runs on a per-connection goroutine with no recover, so an
// explicit panic in package socketace takes the whole process down. The panics that exist guard writes to an
// in-memory buffer (which cannot fail). Each explicit panic must be of that kind: it is dominated by the failure
// of a write whose destination — parameters followed to every caller — is always a bytes.Buffer / strings.Builder
// created in the module, never a writer that can be the peer's connection (a peer that hangs up early would
// otherwise crash the server with one oversized refusal).
func c06NoPanicOnPeerWriteFault(w *World, r *Report) {
	rule := "R06.7"
	var cone []*ssa.Function
	for _, f := range sortedFuncs(allModuleFuncs(w, w.SSA())) {
		cone = append(cone, f)
	}
	writerIface := func(t types.Type) bool {
		it, ok := t.Underlying().(*types.Interface)
		if !ok {
			return false
		}
		for i := 0; i < it.NumMethods(); i++ {
			if it.Method(i).Name() == "Write" {
				return true
			}
		}
		return false
	}
	memBuffer := func(v ssa.Value) bool {
		t := v.Type()
		if p, ok := t.Underlying().(*types.Pointer); ok {
			t = p.Elem()
		}
		n, ok := t.(*types.Named)
		if !ok || n.Obj().Pkg() == nil {
			return false
		}
		q := n.Obj().Pkg().Path() + "." + n.Obj().Name()
		return q == "bytes.Buffer" || q == "strings.Builder"
	}
	var inMemory func(v ssa.Value, depth int) (bool, string)
	inMemory = func(v ssa.Value, depth int) (bool, string) {
		if depth > 3 {
			return false, "origin too deep"
		}
		roots := provWithCallers(v, cone, 0)
		if len(roots) == 0 {
			return false, "no origin"
		}
		for _, root := range roots {
			switch x := root.(type) {
			case *ssa.MakeInterface:
				if ok, why := inMemory(x.X, depth+1); !ok {
					return false, why
				}
				continue
			case *ssa.Alloc:
				if memBuffer(x) {
					continue
				}
			case *ssa.Call:
				if memBuffer(x) {
					if f := sCallee(x); f != nil && f.Pkg() != nil && (f.Pkg().Path() == "bytes" || f.Pkg().Path() == "strings") {
						continue
					}
				}
			}
			if memBuffer(root) {
				if _, isParam := root.(*ssa.Parameter); !isParam {
					continue
				}
			}
			return false, describeValue(w, root)
		}
		return true, ""
	}
	n := 0
	for _, fn := range cone {
		if fn.Pkg == nil || fn.Pkg.Pkg.Path() != modPath+"/internal/socketace" {
			if fn.Parent() == nil || fn.Parent().Pkg == nil || fn.Parent().Pkg.Pkg.Path() != modPath+"/internal/socketace" {
				continue
			}
		}
		k := 0
		for _, b := range fn.Blocks {
			for _, in := range b.Instrs {
				pn, ok := in.(*ssa.Panic)
				if !ok {
					continue
				}
				n++
				k++
				key := fmt.Sprintf("panic@%s#%d", ssaFuncKey(fn), k)
				// the failed write(s) that lead here: the error tested is the result of a write, or a parameter that every
				// caller fills with one (`mustRender(err, what)`)
				var dests []ssa.Value
				var destsOf func(f *ssa.Function, errv ssa.Value, depth int) bool
				destsOf = func(f *ssa.Function, errv ssa.Value, depth int) bool {
					found := false
					for _, root := range provenance(errv, provOpts{}) {
						var call *ssa.Call
						switch x := root.(type) {
						case *ssa.Call:
							call = x
						case *ssa.Extract:
							call, _ = x.Tuple.(*ssa.Call)
						case *ssa.Parameter:
							if depth >= 2 {
								return false
							}
							idx := paramIndex(f, x)
							ncall := 0
							for _, g := range cone {
								for _, c := range callsIn(g) {
									if c.Common().StaticCallee() == f && idx >= 0 && idx < len(c.Common().Args) {
										ncall++
										if !destsOf(g, c.Common().Args[idx], depth+1) {
											return false
										}
									}
								}
							}
							if ncall == 0 {
								return false
							}
							found = true
							continue
						}
						if call == nil {
							if c, isC := root.(*ssa.Const); isC && c.IsNil() {
								continue
							}
							return false
						}
						var d ssa.Value
						if call.Call.IsInvoke() && writerIface(call.Call.Value.Type()) {
							d = call.Call.Value
						}
						for _, a := range call.Call.Args {
							if writerIface(a.Type()) || memBuffer(a) {
								d = a
							}
						}
						if d == nil {
							return false
						}
						dests = append(dests, d)
						found = true
					}
					return found
				}
				okDom := dominatedByCond(fn, pn, func(v ssa.Value) bool {
					bo, ok := v.(*ssa.BinOp)
					if !ok || bo.Op != token.NEQ || !isErrorType(bo.X.Type()) {
						return false
					}
					dests = nil
					return destsOf(fn, bo.X, 0) && len(dests) > 0
				}, true)
				if !okDom || len(dests) == 0 {
					r.Violate(rule, key, w.Pos(pn.Pos()), "an explicit panic in the handshake code that is not the guard of a write to an in-memory buffer: nothing between the socket and this code recovers — whatever leads here ends the process for every peer")
					continue
				}
				okm, why := true, ""
				for _, dest := range dests {
					if o, y := inMemory(dest, 0); !o {
						okm, why = false, y
					}
				}
				r.Check(okm, rule, key, w.Pos(pn.Pos()), "the panic guards a write to an in-memory buffer (bytes.Buffer / strings.Builder at every call site): it cannot happen",
					fmt.Sprintf("the panic guards a write whose destination can be %s — a writer on the peer's connection: a peer that hangs up while an oversized answer is being written makes the write fail, and the panic, on a goroutine without recover, ends the process for every peer", why))
			}
		}
	}
	if n == 0 {
		r.Hold(rule, "panic:none", "-", "no explicit panic in package socketace")
	}
}

// c08TablesCompleteBeforeUse: R08.12 — codecs are used from many goroutines at once (one DNS server, many sessions).
// A package-level table that a function in the cone of some Encode/Decode writes is safe only if it is complete
// before any use: (a) the writer also runs from a package initialiser (then the lazy path is dead code), or (b) it
// runs under sync.Once.Do and every read of the table in the codec cone is dominated by that Do call (a test of
// the table outside the Once sees it half-built: wrong symbols, or a fatal concurrent map access).
func c08TablesCompleteBeforeUse(w *World, r *Report) {
	rule := "R08.12"
	p := w.Pkg("internal/util/enc")
	prog := w.SSA()
	if p == nil || prog.Package(p.Types) == nil {
		r.Undecided(rule, "anchor", "-", "anchor unresolved: package enc")
		return
	}
	sp := prog.Package(p.Types)
	// reachability that also follows function values (closures handed to sync.Once.Do, method values)
	reach := func(roots []*ssa.Function) map[*ssa.Function]bool {
		seen := map[*ssa.Function]bool{}
		st := append([]*ssa.Function(nil), roots...)
		for len(st) > 0 {
			f := st[len(st)-1]
			st = st[:len(st)-1]
			if f == nil || seen[f] || !inModule(f) {
				continue
			}
			seen[f] = true
			allInstrs(f, func(in ssa.Instruction) {
				if c, ok := in.(ssa.CallInstruction); ok {
					if sc := c.Common().StaticCallee(); sc != nil {
						st = append(st, sc)
					}
				}
				for _, op := range in.Operands(nil) {
					switch x := (*op).(type) {
					case *ssa.Function:
						st = append(st, x)
					case *ssa.MakeClosure:
						if cf, ok := x.Fn.(*ssa.Function); ok {
							st = append(st, cf)
						}
					}
				}
			})
		}
		return seen
	}
	var inits, codecs []*ssa.Function
	for _, f := range sortedFuncs(allModuleFuncs(w, prog)) {
		if f.Pkg != sp {
			continue
		}
		if f.Name() == "init" || strings.HasPrefix(f.Name(), "init#") {
			inits = append(inits, f)
		}
		if (f.Name() == "Encode" || f.Name() == "Decode") && f.Signature.Recv() != nil {
			codecs = append(codecs, f)
		}
	}
	fromInit := reach(inits)
	fromCodec := reach(codecs)
	// a global of package enc written by fn?
	writes := func(fn *ssa.Function) []*ssa.Global {
		var out []*ssa.Global
		add := func(g *ssa.Global) {
			for _, x := range out {
				if x == g {
					return
				}
			}
			out = append(out, g)
		}
		globalOf := func(v ssa.Value) *ssa.Global {
			for _, root := range provenance(v, provOpts{}) {
				if g, ok := root.(*ssa.Global); ok && g.Pkg == sp {
					return g
				}
				if u, ok := root.(*ssa.UnOp); ok && u.Op == token.MUL {
					if g, ok := u.X.(*ssa.Global); ok && g.Pkg == sp {
						return g
					}
				}
			}
			return nil
		}
		allInstrs(fn, func(in ssa.Instruction) {
			switch x := in.(type) {
			case *ssa.Store:
				if g, ok := x.Addr.(*ssa.Global); ok && g.Pkg == sp {
					add(g)
				}
				if ia, ok := x.Addr.(*ssa.IndexAddr); ok {
					if g := globalOf(ia.X); g != nil {
						add(g)
					}
				}
			case *ssa.MapUpdate:
				if g := globalOf(x.Map); g != nil {
					add(g)
				}
			}
		})
		return out
	}
	isOnceDoOf := func(c ssa.CallInstruction, writer *ssa.Function) bool {
		f := sCallee(c)
		if f == nil || f.Name() != "Do" || f.Pkg() == nil || f.Pkg().Path() != "sync" {
			return false
		}
		for _, a := range c.Common().Args {
			switch x := a.(type) {
			case *ssa.Function:
				if x == writer {
					return true
				}
			case *ssa.MakeClosure:
				if x.Fn == ssa.Value(writer) {
					return true
				}
			}
		}
		return false
	}
	n := 0
	for _, fn := range sortedFuncs(fromCodec) {
		if fn.Pkg != sp && (fn.Parent() == nil || fn.Parent().Pkg != sp) {
			continue
		}
		if fn.Name() == "init" || strings.HasPrefix(fn.Name(), "init#") {
			continue
		}
		for _, g := range writes(fn) {
			n++
			key := fmt.Sprintf("global:%s@%s", g.Name(), ssaFuncKey(fn))
			pos := w.Pos(fn.Pos())
			if fromInit[fn] {
				r.Hold(rule, key, pos, "the table is built by a package initialiser too: it is complete before the first use, the lazy path never runs")
				continue
			}
			// (b) only under Once.Do, and every read in the codec cone after the Do
			bad := ""
			underOnce := false
			for _, h := range sortedFuncs(fromCodec) {
				for _, c := range callsIn(h) {
					if isOnceDoOf(c, fn) {
						underOnce = true
					}
					if c.Common().StaticCallee() == fn {
						bad = fmt.Sprintf("%s writes the table %s and is called directly (%s), not only through sync.Once", ssaFuncKey(fn), g.Name(), w.Pos(c.Pos()))
					}
				}
			}
			if !underOnce && bad == "" {
				bad = fmt.Sprintf("%s writes the package-level table %s on first use, without a package initialiser and without sync.Once", ssaFuncKey(fn), g.Name())
			}
			if bad == "" {
				for _, h := range sortedFuncs(fromCodec) {
					if h == fn {
						continue
					}
					var does []ssa.Instruction
					for _, c := range callsIn(h) {
						if isOnceDoOf(c, fn) {
							does = append(does, c.(ssa.Instruction))
						}
						// a helper whose every path runs the Do
						if sc := c.Common().StaticCallee(); sc != nil && sc != fn {
							for _, c2 := range callsIn(sc) {
								if isOnceDoOf(c2, fn) && dominatesAllReturns(sc, c2.(ssa.Instruction).Block()) {
									does = append(does, c.(ssa.Instruction))
								}
							}
						}
					}
					allInstrs(h, func(in ssa.Instruction) {
						u, ok := in.(*ssa.UnOp)
						if !ok || u.Op != token.MUL || u.X != ssa.Value(g) || bad != "" {
							return
						}
						dominated := false
						for _, d := range does {
							if d.Block() == u.Block() {
								for _, x := range d.Block().Instrs {
									if x == d {
										dominated = true
										break
									}
									if x == ssa.Instruction(u) {
										break
									}
								}
							} else if d.Block().Dominates(u.Block()) {
								dominated = true
							}
						}
						if !dominated {
							bad = fmt.Sprintf("%s: %s is read before (or without) the sync.Once that builds it has run on this path, and no package initialiser builds it: a goroutine that arrives while another one is filling the table sees it half-built — symbols decode to zero, or the runtime aborts with 'concurrent map read and map write'", w.Pos(u.Pos()), g.Name())
						}
					})
				}
			}
			r.Check(bad == "", rule, key, pos, "the table is built under sync.Once and only read after the Do", bad)
		}
	}
	if n == 0 {
		r.Hold(rule, "global:none", "-", "no function in the cone of a codec's Encode/Decode writes a package-level table")
	}
}

// c10RecordBuffersAreNeverPadded: R10.15 — the answer carries no length field: every byte of a record after its
// order tag is payload to the client. A record buffer created with a constant size must therefore be written
// completely on every path; an element that may stay zero is a NUL the client takes for data (a short last
// chunk must make a short record — which the packer then refuses, a reported failure — never a padded one).
func c10RecordBuffersAreNeverPadded(w *World, r *Report) {
	rule := "R10.15"
	util := w.Pkg("internal/streams/dns/util")
	if util == nil {
		r.Undecided(rule, "anchor", "-", "anchor unresolved: package util")
		return
	}
	sp := w.SSA().Package(util.Types)
	seen := map[*ssa.Function]bool{}
	var fns []*ssa.Function
	for nm, m := range sp.Members {
		fn, ok := m.(*ssa.Function)
		if !ok || !strings.HasPrefix(nm, "WrapDnsResponse") {
			continue
		}
		for _, g := range staticCone(fn, 2) {
			if !seen[g] && inModule(g) && g.Pkg == sp {
				seen[g] = true
				fns = append(fns, g)
			}
		}
	}
	sort.Slice(fns, func(i, j int) bool { return fns[i].Pos() < fns[j].Pos() })
	n := 0
	for _, fn := range fns {
		k := 0
		allInstrs(fn, func(in ssa.Instruction) {
			// make([]byte, L) with a constant L: a MakeSlice, or (go/ssa's lowering) new [L]byte sliced whole
			var ms ssa.Value
			var L int64
			switch x := in.(type) {
			case *ssa.MakeSlice:
				if v, isC := constIntVal(x.Len); isC && v > 0 {
					ms, L = x, v
				}
			case *ssa.Slice:
				if al, ok := x.X.(*ssa.Alloc); ok && x.Low == nil {
					if arr, ok := al.Type().(*types.Pointer).Elem().Underlying().(*types.Array); ok && arr.Len() > 0 {
						if x.High == nil {
							ms, L = x, arr.Len()
						} else if h, isC := constIntVal(x.High); isC && h == arr.Len() {
							ms, L = x, arr.Len()
						}
					}
				}
			}
			if ms == nil {
				return
			}
			if bt, ok := ms.Type().Underlying().(*types.Slice); !ok || !isStringOrBytes(bt) {
				return
			}
			k++
			n++
			key := fmt.Sprintf("buffer@%s#%d", ssaFuncKey(fn), k)
			covered := make([]bool, L)
			mark := func(a, b int64) {
				for i := a; i < b && i < L; i++ {
					if i >= 0 {
						covered[i] = true
					}
				}
			}
			// offset of a view of ms: ms itself (0) or ms[a:] with constant a
			offsetOf := func(v ssa.Value) (int64, bool) {
				if v == ssa.Value(ms) {
					return 0, true
				}
				if sl, ok := v.(*ssa.Slice); ok && sl.X == ssa.Value(ms) && sl.High == nil {
					if sl.Low == nil {
						return 0, true
					}
					if a, isC := constIntVal(sl.Low); isC {
						return a, true
					}
				}
				return 0, false
			}
			why := ""
			allInstrs(fn, func(in2 ssa.Instruction) {
				switch x := in2.(type) {
				case *ssa.Store:
					if ia, ok := x.Addr.(*ssa.IndexAddr); ok && ia.X == ssa.Value(ms) {
						if i, isC := constIntVal(ia.Index); isC {
							mark(i, i+1)
						}
					}
				case *ssa.Call:
					if bi, ok := x.Call.Value.(*ssa.Builtin); ok && bi.Name() == "copy" && len(x.Call.Args) == 2 {
						if a, ok := offsetOf(x.Call.Args[0]); ok {
							need := L - a
							if factsAt(x).entails(linConst(need), lenOf(x.Call.Args[1], 0)) {
								mark(a, L)
							} else {
								why = fmt.Sprintf("%s: copy fills the buffer from offset %d with a source that is not proven to hold the %d bytes that remain", w.Pos(x.Pos()), a, need)
							}
						}
						return
					}
					f := sCallee(x)
					if f != nil && f.Pkg() != nil && f.Pkg().Path() == "encoding/binary" && strings.HasPrefix(f.Name(), "PutUint") {
						width := map[string]int64{"PutUint16": 2, "PutUint32": 4, "PutUint64": 8}[f.Name()]
						for _, arg := range x.Call.Args {
							if a, ok := offsetOf(arg); ok && width > 0 {
								mark(a, a+width)
							}
						}
					}
				}
			})
			full := true
			first := int64(-1)
			for i, c := range covered {
				if !c {
					full = false
					if first < 0 {
						first = int64(i)
					}
				}
			}
			// buffers that are only ever extended by append are exact by construction; a buffer none of whose
			// elements is written explicitly and that is not a record buffer (scratch space) is not this rule's business
			any := false
			for _, c := range covered {
				any = any || c
			}
			if !any && why == "" {
				n--
				k--
				return
			}
			r.Check(full, rule, key, w.Pos(in.Pos()), fmt.Sprintf("all %d bytes of the buffer are written on every path (tag and, for fixed-size records, a full chunk)", L),
				fmt.Sprintf("byte %d.. of the %d-byte record buffer may stay zero%s: the record is padded with NUL bytes that the client, which has no length field to go by, hands to the codec as payload — a silently different response instead of a refused record", first, L, mapStr(why != "", " ("+why+")")))
		})
	}
	if n == 0 {
		r.Undecided(rule, "buffers", "-", "no fixed-size record buffer found in the Wrap* functions (idiom not recognised)")
	}
}

// mathRangeOf: the range of the mathematical (unwrapped) value of an integer expression, computed from the value
// ranges of its leaves (constants, or the full range of the leaf's type). ok=false when not an integer.
func mathRangeOf(v ssa.Value, depth int) (lo, hi *big.Int, ok bool) {
	if c, isC := v.(*ssa.Const); isC && c.Value != nil && c.Value.Kind() == constant.Int {
		if x, exact := constant.Int64Val(constant.ToInt(c.Value)); exact {
			return big.NewInt(x), big.NewInt(x), true
		}
	}
	tlo, thi, tok := typeRange(v.Type())
	if !tok {
		return nil, nil, false
	}
	valueRange := func(x ssa.Value) (*big.Int, *big.Int, bool) {
		// the value of a sub-expression is its mathematical value if that fits its type, else anything in the type
		l, h, ok := mathRangeOf(x, depth+1)
		if !ok {
			return nil, nil, false
		}
		xl, xh, xok := typeRange(x.Type())
		if !xok {
			return l, h, true
		}
		if l.Cmp(xl) < 0 || h.Cmp(xh) > 0 {
			return xl, xh, true
		}
		return l, h, true
	}
	if depth > 6 {
		return tlo, thi, true
	}
	switch x := v.(type) {
	case *ssa.BinOp:
		al, ah, ok1 := valueRange(x.X)
		bl, bh, ok2 := valueRange(x.Y)
		if !ok1 || !ok2 {
			return tlo, thi, true
		}
		switch x.Op {
		case token.ADD:
			return new(big.Int).Add(al, bl), new(big.Int).Add(ah, bh), true
		case token.SUB:
			return new(big.Int).Sub(al, bh), new(big.Int).Sub(ah, bl), true
		case token.MUL:
			c := []*big.Int{new(big.Int).Mul(al, bl), new(big.Int).Mul(al, bh), new(big.Int).Mul(ah, bl), new(big.Int).Mul(ah, bh)}
			mn, mx := c[0], c[0]
			for _, y := range c[1:] {
				if y.Cmp(mn) < 0 {
					mn = y
				}
				if y.Cmp(mx) > 0 {
					mx = y
				}
			}
			return mn, mx, true
		case token.SHL:
			if bl.Sign() >= 0 && bh.IsInt64() && bh.Int64() < 64 && al.Sign() >= 0 {
				return al, new(big.Int).Lsh(ah, uint(bh.Int64())), true
			}
		case token.AND:
			if bl.Sign() >= 0 && al.Sign() >= 0 {
				m := ah
				if bh.Cmp(m) < 0 {
					m = bh
				}
				return big.NewInt(0), m, true
			}
		case token.REM:
			if bl.Sign() > 0 && al.Sign() >= 0 {
				return big.NewInt(0), new(big.Int).Sub(bh, big.NewInt(1)), true
			}
		case token.QUO:
			if bl.Sign() > 0 && al.Sign() >= 0 {
				return big.NewInt(0), ah, true
			}
		}
	case *ssa.Convert:
		if _, _, isInt := typeRange(x.X.Type()); isInt {
			l, h, ok := valueRange(x.X)
			if ok && l.Cmp(tlo) >= 0 && h.Cmp(thi) <= 0 {
				return l, h, true
			}
		}
	case *ssa.ChangeType:
		return mathRangeOf(x.X, depth+1)
	}
	return tlo, thi, true
}

// ruleNoNarrowArithmeticBeforeWidening: a value that is computed in 8-bit arithmetic and only then converted to a
// wider integer has wrapped before the conversion (`uint16(hi*36 + lo)` with byte operands). In the decoder of
// the request header that turns identifiers above 255 into their residue: the peer of session 256+k then drives
// session k.
func ruleNoNarrowArithmeticBeforeWidening(w *World, r *Report, rule string, entries []*ssa.Function, consequence string) {
	seen := map[*ssa.Function]bool{}
	var cone []*ssa.Function
	for _, e := range entries {
		for _, f := range staticCone(e, 2) {
			if !seen[f] && inModule(f) {
				seen[f] = true
				cone = append(cone, f)
			}
		}
	}
	sort.Slice(cone, func(i, j int) bool { return cone[i].Pos() < cone[j].Pos() })
	for _, fn := range cone {
		n := 0
		var bad []string
		allInstrs(fn, func(in ssa.Instruction) {
			cv, ok := in.(*ssa.Convert)
			if !ok {
				return
			}
			slo, shi, sok := typeRange(cv.X.Type())
			dlo, dhi, dok := typeRange(cv.Type())
			if !sok || !dok || (dhi.Cmp(shi) <= 0 && dlo.Cmp(slo) >= 0) {
				return // not a widening integer conversion
			}
			bo, isArith := cv.X.(*ssa.BinOp)
			if !isArith {
				return
			}
			switch bo.Op {
			case token.ADD, token.MUL, token.SHL, token.SUB:
			default:
				return
			}
			n++
			lo, hi, ok := mathRangeOf(bo, 0)
			if ok && (lo.Cmp(slo) < 0 || hi.Cmp(shi) > 0) {
				bad = append(bad, fmt.Sprintf("%s: %s is computed in %s (its mathematical value ranges over %s..%s) and converted to %s afterwards: the wrap happens before the widening", w.Pos(cv.Pos()), describeValue(w, bo), cv.X.Type(), lo, hi, cv.Type()))
			}
		})
		key := "func:" + ssaFuncKey(fn) + "|narrow-arithmetic"
		sort.Strings(bad)
		r.Check(len(bad) == 0, rule, key, w.Pos(fn.Pos()), fmt.Sprintf("%d widening conversion(s) of an arithmetic result, none of an expression that can wrap in its narrow type", n), strings.Join(bad, "; ")+consequence)
	}
	if len(cone) == 0 {
		r.Undecided(rule, "cone", "-", "anchor unresolved")
	}
}

// c14AcceptFailureClosesCarrier: R14.8 — AcceptConnection owns the carrier it is given: the listeners' accept loops
// hand it over and forget it. Every return with an error has closed it (directly, or by closing the session
// connection built on it), except where the error itself says the carrier is closed already — and only that:
// "the peer went away" (EOF, reset) leaves OUR end open, a socket in CLOSE_WAIT per probe.
func c14AcceptFailureClosesCarrier(w *World, r *Report) {
	ruleAcceptFailureClosesCarrier(w, r, "R14.8")
}

func ruleAcceptFailureClosesCarrier(w *World, r *Report, rule string) {
	fn := w.SSAFunc(w.Func("internal/server", "AcceptConnection"))
	key := "func:server.AcceptConnection|failure-closes-carrier"
	if fn == nil || len(fn.Params) == 0 {
		r.Undecided(rule, key, "-", "anchor unresolved")
		return
	}
	saysClosed := func(v ssa.Value) bool {
		c, ok := v.(*ssa.Call)
		if !ok {
			return false
		}
		f := sCallee(c)
		if f == nil || f.Pkg() == nil || f.Pkg().Path() != "strings" || f.Name() != "Contains" {
			// errors.Is(err, net.ErrClosed)
			if f != nil && f.Pkg() != nil && f.Pkg().Path() == "errors" && f.Name() == "Is" && len(c.Call.Args) == 2 {
				for _, root := range provenance(c.Call.Args[1], provOpts{}) {
					if u, ok := root.(*ssa.UnOp); ok {
						if g, ok := u.X.(*ssa.Global); ok && g.Name() == "ErrClosed" {
							return true
						}
					}
				}
			}
			return false
		}
		s, isC := constStrVal(c.Call.Args[1])
		return isC && strings.Contains(s, "closed network connection")
	}
	// a path needs no close: there is no carrier, or the error says the carrier is closed already
	excused := func(st *pathState, isCarrier func(ssa.Value) bool) bool {
		for v, t := range st.Facts {
			if t && saysClosed(v) {
				return true
			}
			if x, eqNil, ok := nilTest(v); ok && t == eqNil && isCarrier(x) {
				return true
			}
			if hc, ok := v.(*ssa.Call); ok {
				if h := hc.Call.StaticCallee(); h != nil && inModule(h) && len(h.Blocks) > 0 {
					if predicateHelperImplies(h, t, func(facts map[ssa.Value]bool) bool {
						for v2, t2 := range facts {
							if t2 && saysClosed(v2) {
								return true
							}
						}
						return false
					}) {
						return true
					}
				}
			}
		}
		return false
	}
	// closesOrExcused: every return path of g closes what isCarrier recognises (directly, or through a helper that
	// does), or is excused
	var closesOrExcused func(g *ssa.Function, isCarrier func(ssa.Value) bool, depth int) bool
	closeEvent := func(g *ssa.Function, isCarrier func(ssa.Value) bool, depth int) func(ssa.Instruction) bool {
		return func(in ssa.Instruction) bool {
			c, ok := in.(ssa.CallInstruction)
			if !ok {
				return false
			}
			if isCloseOn(w, c, isCarrier) {
				return true
			}
			if sc := c.Common().StaticCallee(); sc != nil && inModule(sc) && len(sc.Blocks) > 0 && depth < 2 {
				for i, a := range c.Common().Args {
					if !isCarrier(a) || i >= len(sc.Params) {
						continue
					}
					p := sc.Params[i]
					if closesOrExcused(sc, func(v ssa.Value) bool {
						for _, root := range provenance(v, provOpts{}) {
							if root == ssa.Value(p) {
								return true
							}
						}
						return false
					}, depth+1) {
						return true
					}
				}
			}
			return false
		}
	}
	closesOrExcused = func(g *ssa.Function, isCarrier func(ssa.Value) bool, depth int) bool {
		all, n := true, 0
		okp := enumPaths(g, nil, closeEvent(g, isCarrier, depth), nil, func(e pathExit) {
			if _, isRet := e.Last.(*ssa.Return); !isRet {
				return
			}
			n++
			if len(e.State.Events) == 0 && !excused(e.State, isCarrier) {
				all = false
			}
		})
		return okp && all && n > 0
	}
	conn := fn.Params[0]
	onCarrier := func(v ssa.Value) bool {
		for _, root := range provInter(v, 0) {
			if root == ssa.Value(conn) {
				return true
			}
			// the session connection built on the carrier
			var call *ssa.Call
			switch x := root.(type) {
			case *ssa.Call:
				call = x
			case *ssa.Extract:
				call, _ = x.Tuple.(*ssa.Call)
			}
			if call != nil {
				for _, a := range call.Call.Args {
					for _, r2 := range provenance(a, provOpts{}) {
						if r2 == ssa.Value(conn) {
							return true
						}
					}
				}
			}
		}
		return false
	}
	bad := ""
	nfail := 0
	okp := enumPaths(fn, nil, closeEvent(fn, onCarrier, 0), nil, func(e pathExit) {
		ret, isRet := e.Last.(*ssa.Return)
		if !isRet || len(ret.Results) == 0 || bad != "" {
			return
		}
		if isConstNil(e.State.Resolve(ret.Results[len(ret.Results)-1])) {
			return
		}
		nfail++
		if len(e.State.Events) > 0 || excused(e.State, onCarrier) {
			return
		}
		bad = fmt.Sprintf("%s: AcceptConnection returns an error without having closed the carrier, on a path that has not established that the carrier is closed already: the accept loop has forgotten the connection, so the socket stays open (CLOSE_WAIT) for every peer that leaves during the negotiation — one descriptor per port probe or health check", w.Pos(ret.Pos()))
	})
	if !okp {
		r.Undecided(rule, key, w.Pos(fn.Pos()), "path budget exceeded")
		return
	}
	r.Check(bad == "" && nfail > 0, rule, key, w.Pos(fn.Pos()), fmt.Sprintf("%d failing return path(s), each after the carrier was closed or was found closed already", nfail), bad+mapStr(nfail == 0, "no failing return path found (anchors moved?)"))
}

// c18StartupRunsOncePerServer: R18.10 — the Startup methods consume the transport markers of their configured
// address: they cut "+tls" off Address.Scheme (and derive `secure` from it) and clear the password in
// Address.User, in place, before they bind. That is only sound while Startup runs once per server object: a
// second run on the same object sees a plain scheme and starts a clear-text listener for a +tls address. As long
// as some Startup rewrites its own address, no call of Startup lies on a loop that keeps the same receiver.
func c18StartupRunsOncePerServer(w *World, r *Report) {
	rule := "R18.10"
	key := "iface:server.Server|startup-once"
	si := w.Interface("internal/server", "Server")
	if si == nil {
		r.Undecided(rule, key, "-", "anchor unresolved: server.Server")
		return
	}
	isURLField := func(fv *types.Var) bool {
		return fv != nil && fv.Pkg() != nil && fv.Pkg().Path() == "net/url"
	}
	// which Startup implementations rewrite their own configured address?
	var mutating []string
	startups := map[*types.Func]bool{}
	for _, n := range w.Implementers(si) {
		m := methodOf(n, "Startup")
		if m == nil || startups[m] {
			continue
		}
		startups[m] = true
		fn := w.SSAFunc(m)
		if fn == nil || len(fn.Params) == 0 {
			continue
		}
		recv := fn.Params[0]
		found := ""
		for _, g := range staticCone(fn, 1) {
			if g != fn && (len(g.Params) == 0 || g.Signature.Recv() == nil) {
				continue
			}
			base := ssa.Value(recv)
			if g != fn {
				base = g.Params[0]
			}
			allInstrs(g, func(in ssa.Instruction) {
				st, ok := in.(*ssa.Store)
				if !ok || found != "" {
					return
				}
				fa, ok := st.Addr.(*ssa.FieldAddr)
				if !ok || !isURLField(fieldVarOf(fa)) {
					return
				}
				// the URL is reached from the receiver through field addresses only (not a local copy)
				x := fa.X
				for i := 0; i < 6; i++ {
					if f2, ok := x.(*ssa.FieldAddr); ok {
						x = f2.X
						continue
					}
					break
				}
				if _, isPtr := x.Type().Underlying().(*types.Pointer); !isPtr {
					return
				}
				for _, root := range provenance(x, provOpts{}) {
					if root == base {
						found = fmt.Sprintf("%s (%s, field %s)", ssaFuncKey(g), w.Pos(st.Pos()), fieldVarOf(fa).Name())
					}
				}
			})
		}
		if found != "" {
			mutating = append(mutating, found)
		}
	}
	sort.Strings(mutating)
	if len(mutating) == 0 {
		r.Hold(rule, key, "-", "no Startup rewrites its own configured address: running it again is harmless")
		return
	}
	var bad []string
	ncalls := 0
	for _, fn := range sortedFuncs(allModuleFuncs(w, w.SSA())) {
		for _, c := range callsIn(fn) {
			cc := c.Common()
			isStartup := false
			var recv ssa.Value
			if cc.IsInvoke() && cc.Method.Name() == "Startup" && types.Implements(cc.Value.Type(), si.Underlying().(*types.Interface)) {
				isStartup, recv = true, cc.Value
			} else if f := sCallee(c); f != nil && startups[f] && len(cc.Args) > 0 {
				isStartup, recv = true, cc.Args[0]
			}
			if !isStartup {
				continue
			}
			ncalls++
			ci := c.(ssa.Instruction)
			cyc := cycleThrough(ci.Block())
			if cyc == nil {
				continue
			}
			// the receiver changes with the iteration if it is computed inside the cycle
			inside := false
			for _, root := range provenance(recv, provOpts{}) {
				if ri, ok := root.(ssa.Instruction); ok && cyc[ri.Block()] {
					inside = true
				}
			}
			if !inside {
				bad = append(bad, fmt.Sprintf("%s: Startup is called in a loop on the same server object (%s): the first run has already cut the +tls marker off the configured address (and cleared the password), so a later run — after a bind failure, say — starts a clear-text listener for an address configured with TLS", w.Pos(c.Pos()), ssaFuncKey(fn)))
			}
		}
	}
	r.Check(len(bad) == 0 && ncalls > 0, rule, key, "-", fmt.Sprintf("%d Startup implementation(s) rewrite their configured address in place (e.g. %s); none of the %d call(s) of Startup repeats on one object", len(mutating), mutating[0], ncalls), strings.Join(bad, "; ")+mapStr(ncalls == 0, "no call of Startup found"))
}

// c11CodecCommitFollowsItsProbe: R11.13 — the autodetection steps of the client try codecs against the server and
// store the one to use into the serializer. (1) A codec is never stored on a path on which its own probe has just
// failed (the condition `if err := probe(c); err != nil { use c }` is the inverse of what is meant). (2) Every
// way out of such a step — unless the connection was found closed — has stored some codec: the next step
// dereferences it (`Encoder.Name()`), a nil codec there is a crash of the client that only the answers of the
// DNS path decide.
func c11CodecCommitFollowsItsProbe(w *World, r *Report) {
	ruleCodecCommitFollowsItsProbe(w, r, "R11.13")
}

func ruleCodecCommitFollowsItsProbe(w *World, r *Report, rule string) {
	cdc := w.Named("internal/streams/dns", "ClientDnsConnection")
	hs := w.SSAFunc(methodOf(cdc, "Handshake"))
	if cdc == nil || hs == nil {
		r.Undecided(rule, "anchor", "-", "anchor unresolved: ClientDnsConnection.Handshake")
		return
	}
	isEncoderField := func(fa *ssa.FieldAddr) bool {
		fv := fieldVarOf(fa)
		if fv == nil || fv.Name() != "Encoder" || fv.Pkg() == nil || !strings.HasSuffix(fv.Pkg().Path(), "/internal/streams/dns/util") {
			return false
		}
		return true
	}
	sameCodec := func(a, b ssa.Value) bool {
		if a == b {
			return true
		}
		ga := func(v ssa.Value) *ssa.Global {
			for _, root := range provenance(v, provOpts{}) {
				if u, ok := root.(*ssa.UnOp); ok {
					if g, ok := u.X.(*ssa.Global); ok {
						return g
					}
				}
			}
			return nil
		}
		x, y := ga(a), ga(b)
		return x != nil && x == y
	}
	n := 0
	for _, c := range callsIn(hs) {
		step := c.Common().StaticCallee()
		if step == nil || !inModule(step) || len(step.Blocks) == 0 || step.Signature.Results().Len() != 0 {
			continue
		}
		// a detection step: stores a codec into the serializer and makes exchanges with the server
		stores := false
		allInstrs(step, func(in ssa.Instruction) {
			if st, ok := in.(*ssa.Store); ok {
				if fa, ok := st.Addr.(*ssa.FieldAddr); ok && isEncoderField(fa) {
					stores = true
				}
			}
		})
		if !stores {
			continue
		}
		n++
		key := "step:" + ssaFuncKey(step) + "|codec-commit"
		isStore := func(in ssa.Instruction) bool {
			st, ok := in.(*ssa.Store)
			if !ok {
				return false
			}
			fa, ok := st.Addr.(*ssa.FieldAddr)
			return ok && isEncoderField(fa)
		}
		bad := ""
		npaths := 0
		okp := enumPaths(step, nil, isStore, nil, func(e pathExit) {
			if _, isRet := e.Last.(*ssa.Return); !isRet || bad != "" {
				return
			}
			npaths++
			closed := false
			isClosedFact := func(v ssa.Value, t bool) bool {
				cl, ok := v.(*ssa.Call)
				if !ok || !t {
					return false
				}
				f := sCallee(cl)
				return f != nil && f.Name() == "Closed"
			}
			for v, t := range e.State.Facts {
				if isClosedFact(v, t) {
					closed = true
				}
				// a probing helper that reports "given up, the connection was closed" in one of its results:
				// `working, finished := dc.probeDownstreamEncoders(); if !finished { return }`
				if ex, ok := v.(*ssa.Extract); ok {
					if hc, ok := ex.Tuple.(*ssa.Call); ok {
						if h := hc.Call.StaticCallee(); h != nil && inModule(h) && len(h.Blocks) > 0 {
							all, n := true, 0
							okh := enumPaths(h, nil, nil, nil, func(e2 pathExit) {
								ret, isRet := e2.Last.(*ssa.Return)
								if !isRet || ex.Index >= len(ret.Results) {
									return
								}
								b, isC := constBool(e2.State.Resolve(ret.Results[ex.Index]))
								if isC && b != t {
									return // this return does not produce the observed value
								}
								n++
								cl2 := false
								for v2, t2 := range e2.State.Facts {
									if isClosedFact(v2, t2) {
										cl2 = true
									}
								}
								if !cl2 {
									all = false
								}
							})
							if okh && all && n > 0 {
								closed = true
							}
						}
					}
				}
			}
			if len(e.State.Events) == 0 {
				if !closed {
					bad = fmt.Sprintf("%s: the detection step can return without having stored any codec (and without the connection being closed): the step that follows calls a method on the codec — with a fresh client that is a nil dereference, a crash that only the answers of the DNS path decide", w.Pos(e.Last.Pos()))
				}
				return
			}
			// (1a) per path, for codecs named by a package-level variable (the same codec in every iteration): the value
			// that reaches the store — through assignments to a local such as `activeEncoder = enc.RawEncoding` — is the
			// codec whose probe failed on this path
			last := e.State.Events[len(e.State.Events)-1].(*ssa.Store)
			codec := e.State.Resolve(last.Val)
			for v, t := range e.State.Facts {
				x, eqNil, ok := nilTest(v)
				if !ok || t == eqNil || !isErrorType(x.Type()) {
					continue
				}
				for _, root := range provenance(x, provOpts{}) {
					pc, ok := root.(*ssa.Call)
					if !ok {
						continue
					}
					if sc := pc.Call.StaticCallee(); sc == nil || !inModule(sc) {
						continue
					}
					for _, a := range pc.Call.Args {
						if ga, gb := codecGlobal(e.State.Resolve(a)), codecGlobal(codec); ga != nil && ga == gb {
							bad = fmt.Sprintf("%s: the codec %s is stored on a path on which its own probe (%s) has just FAILED: the client settles on a codec it has seen not to work, and every answer after the handshake is decoded with it", w.Pos(last.Pos()), ga.Name(), w.Pos(pc.Pos()))
						}
					}
				}
			}
		})
		// (1b) by dominance, on the value the store names itself (a value carried round a loop by a phi is another
		// iteration's codec, not the one whose probe failed last)
		allInstrs(step, func(in ssa.Instruction) {
			st, ok := in.(*ssa.Store)
			if !ok || !isStore(in) || bad != "" {
				return
			}
			var probe *ssa.Call
			probeErrTest := func(wantEq bool) func(v ssa.Value) bool {
				return func(v ssa.Value) bool {
					x, eqNil, ok := nilTest(v)
					if !ok || eqNil != wantEq || !isErrorType(x.Type()) {
						return false
					}
					for _, root := range provenance(x, provOpts{}) {
						pc, ok := root.(*ssa.Call)
						if !ok {
							continue
						}
						if sc := pc.Call.StaticCallee(); sc == nil || !inModule(sc) {
							continue
						}
						for _, a := range pc.Call.Args {
							if sameCodec(a, st.Val) {
								probe = pc
								return true
							}
						}
					}
					return false
				}
			}
			// the failing edge: `err == nil` false, or `err != nil` true
			failed := dominatedByCond(step, st, probeErrTest(true), false) || dominatedByCond(step, st, probeErrTest(false), true)
			if failed && probe != nil {
				bad = fmt.Sprintf("%s: the codec %s is stored on the branch on which its own probe (%s) has just FAILED: the client settles on a codec it has seen not to work, and every answer after the handshake is decoded with it", w.Pos(st.Pos()), describeValue(w, st.Val), w.Pos(probe.Pos()))
			}
		})
		if !okp {
			r.Undecided(rule, key, w.Pos(step.Pos()), "path budget exceeded")
			continue
		}
		r.Check(bad == "", rule, key, w.Pos(step.Pos()), fmt.Sprintf("%d way(s) out, each with a codec stored (or the connection closed), none storing a codec whose probe failed on that path", npaths), bad)
	}
	if n == 0 {
		r.Undecided(rule, "steps", "-", "no codec detection step found in Handshake (anchors moved?)")
	}
}

// codecGlobal: the package-level variable a codec value is loaded from (nil if it is not one).
func codecGlobal(v ssa.Value) *ssa.Global {
	for _, root := range provenance(v, provOpts{}) {
		if u, ok := root.(*ssa.UnOp); ok {
			if g, ok := u.X.(*ssa.Global); ok {
				return g
			}
		}
	}
	return nil
}

// ---- small constant tables: `var t = map[string]struct{ scheme string; secure bool }{ "https": {"wss", true}, … }`

type constTableEntry struct {
	Key    string
	Fields map[string]constant.Value
}

// constTableOf: the entries of a package-level map[string]struct literal with constant keys and constant field
// values, only ever assigned by its declaration (frozenGlobal). nil if g is not such a table.
func constTableOf(w *World, g *ssa.Global) []constTableEntry {
	if g == nil || !frozenGlobal(g) {
		return nil
	}
	for _, p := range w.Pkgs {
		if p.Types != g.Pkg.Pkg {
			continue
		}
		for _, f := range p.Syntax {
			for _, d := range f.Decls {
				gd, ok := d.(*ast.GenDecl)
				if !ok || gd.Tok != token.VAR {
					continue
				}
				for _, sp := range gd.Specs {
					vs := sp.(*ast.ValueSpec)
					for i, name := range vs.Names {
						if p.TypesInfo.Defs[name] != g.Object() || i >= len(vs.Values) {
							continue
						}
						lit, ok := unparen(vs.Values[i]).(*ast.CompositeLit)
						if !ok {
							return nil
						}
						mt, ok := p.TypesInfo.TypeOf(lit).Underlying().(*types.Map)
						if !ok {
							return nil
						}
						st, ok := mt.Elem().Underlying().(*types.Struct)
						if !ok {
							return nil
						}
						var out []constTableEntry
						for _, el := range lit.Elts {
							kv, ok := el.(*ast.KeyValueExpr)
							if !ok {
								return nil
							}
							ktv := p.TypesInfo.Types[kv.Key]
							if ktv.Value == nil || ktv.Value.Kind() != constant.String {
								return nil
							}
							vl, ok := unparen(kv.Value).(*ast.CompositeLit)
							if !ok {
								return nil
							}
							ent := constTableEntry{Key: constant.StringVal(ktv.Value), Fields: map[string]constant.Value{}}
							for j, fe := range vl.Elts {
								var fname string
								var fval ast.Expr
								if fkv, ok := fe.(*ast.KeyValueExpr); ok {
									id, ok := fkv.Key.(*ast.Ident)
									if !ok {
										return nil
									}
									fname, fval = id.Name, fkv.Value
								} else {
									if j >= st.NumFields() {
										return nil
									}
									fname, fval = st.Field(j).Name(), fe
								}
								tv := p.TypesInfo.Types[fval]
								if tv.Value == nil {
									return nil
								}
								ent.Fields[fname] = tv.Value
							}
							// fields left out are zero values
							for j := 0; j < st.NumFields(); j++ {
								if _, have := ent.Fields[st.Field(j).Name()]; !have {
									switch bt := st.Field(j).Type().Underlying().(type) {
									case *types.Basic:
										switch {
										case bt.Info()&types.IsBoolean != 0:
											ent.Fields[st.Field(j).Name()] = constant.MakeBool(false)
										case bt.Info()&types.IsString != 0:
											ent.Fields[st.Field(j).Name()] = constant.MakeString("")
										case bt.Info()&types.IsNumeric != 0:
											ent.Fields[st.Field(j).Name()] = constant.MakeInt64(0)
										}
									}
								}
							}
							out = append(out, ent)
						}
						return out
					}
				}
			}
		}
	}
	return nil
}

// tableFieldLookup: v is `entry.field` of `entry, ok := table[key]` for a constant table: the table's entries, the
// field read and the lookup instruction.
func tableFieldLookup(w *World, v ssa.Value) (entries []constTableEntry, field string, lk *ssa.Lookup) {
	var st ssa.Value
	switch x := v.(type) {
	case *ssa.Field:
		stt, ok := x.X.Type().Underlying().(*types.Struct)
		if !ok {
			return nil, "", nil
		}
		field, st = stt.Field(x.Field).Name(), x.X
	case *ssa.UnOp:
		fa, ok := x.X.(*ssa.FieldAddr)
		if !ok {
			return nil, "", nil
		}
		// a struct spilled into a local: `known := entry` then `known.secure`
		al, ok := fa.X.(*ssa.Alloc)
		if !ok || al.Referrers() == nil {
			return nil, "", nil
		}
		var only ssa.Value
		for _, ref := range *al.Referrers() {
			if s2, ok := ref.(*ssa.Store); ok && s2.Addr == ssa.Value(al) {
				if only != nil {
					return nil, "", nil
				}
				only = s2.Val
			}
		}
		if only == nil {
			return nil, "", nil
		}
		field, st = fieldVarOf(fa).Name(), only
	default:
		return nil, "", nil
	}
	ex, ok := st.(*ssa.Extract)
	if !ok || ex.Index != 0 {
		// a plain (not comma-ok) lookup
		if l2, ok := st.(*ssa.Lookup); ok {
			if g := codecGlobal(l2.X); g != nil {
				return constTableOf(w, g), field, l2
			}
		}
		return nil, "", nil
	}
	l, ok := ex.Tuple.(*ssa.Lookup)
	if !ok {
		return nil, "", nil
	}
	g := codecGlobal(l.X)
	if g == nil {
		return nil, "", nil
	}
	return constTableOf(w, g), field, l
}

// tableMissExcludes: is v the comma-ok of a lookup in a constant table that has `key` among its keys? (Then the
// branch on which it is false has excluded that key.)
func tableMissExcludes(w *World, v ssa.Value, key string) bool {
	ex, ok := v.(*ssa.Extract)
	if !ok || ex.Index != 1 {
		return false
	}
	l, ok := ex.Tuple.(*ssa.Lookup)
	if !ok {
		return false
	}
	for _, e := range constTableOf(w, codecGlobal(l.X)) {
		if e.Key == key {
			return true
		}
	}
	return false
}

// c10DecodedResponseIsNeverBlank: R10.16 — a response decoder that reports success has put something into its
// receiver: an answer object on which NO field was stored reaches the client as a well-formed, zero-valued
// answer (`{FragmentSize: 0, Err: nil}` looks like a granted probe). The classic way in is
// `str, err := buf.ReadString(0); if err != io.EOF { return errors.WithStack(err) }`: when the delimiter IS found
// err is nil, WithStack(nil) is nil, and the function "succeeds" before Err is set.
func c10DecodedResponseIsNeverBlank(w *World, r *Report) {
	rule := "R10.16"
	iface := w.Interface("internal/streams/dns/commands", "Response")
	if iface == nil {
		r.Undecided(rule, "anchor", "-", "anchor unresolved: commands.Response")
		return
	}
	roleTypes := commandRoleTypes(w, "Response")
	n := 0
	for _, nt := range w.Implementers(iface) {
		if !roleTypes[nt] {
			continue
		}
		st, ok := nt.Underlying().(*types.Struct)
		if !ok || st.NumFields() == 0 {
			continue
		}
		fn := w.SSAFunc(methodOf(nt, "Decode"))
		if fn == nil || len(fn.Params) == 0 {
			continue
		}
		n++
		key := "type:" + qualName(nt) + "|decode-stores"
		recv := fn.Params[0]
		isFieldStore := func(in ssa.Instruction) bool {
			s, ok := in.(*ssa.Store)
			if !ok {
				return false
			}
			fa, ok := s.Addr.(*ssa.FieldAddr)
			if !ok {
				return false
			}
			for _, root := range provenance(fa.X, provOpts{}) {
				if root == ssa.Value(recv) {
					return true
				}
			}
			return fa.X == ssa.Value(recv)
		}
		// stores made by helpers that are handed the receiver
		isEvent := func(in ssa.Instruction) bool {
			if isFieldStore(in) {
				return true
			}
			if c, ok := in.(ssa.CallInstruction); ok {
				if sc := c.Common().StaticCallee(); sc != nil && inModule(sc) && len(sc.Blocks) > 0 {
					for i, a := range c.Common().Args {
						for _, root := range provenance(a, provOpts{}) {
							if root == ssa.Value(recv) && i < len(sc.Params) {
								// a helper that fills in fields of the answer (not a getter)
								stores := false
								allInstrs(sc, func(x ssa.Instruction) {
									if s2, ok := x.(*ssa.Store); ok {
										if fa2, ok := s2.Addr.(*ssa.FieldAddr); ok && fa2.X == ssa.Value(sc.Params[i]) {
											stores = true
										}
									}
								})
								if stores {
									return true
								}
							}
							if fa, ok := root.(*ssa.FieldAddr); ok && fa.X == ssa.Value(recv) {
								return true // &vr.Field handed to a reader (binary.Read(buf, order, &vr.X))
							}
						}
					}
				}
				// binary.Read(buf, order, &vr.Field)
				for _, a := range c.Common().Args {
					for _, root := range provenance(a, provOpts{}) {
						if fa, ok := root.(*ssa.FieldAddr); ok {
							for _, r2 := range provenance(fa.X, provOpts{}) {
								if r2 == ssa.Value(recv) {
									return true
								}
							}
						}
					}
				}
			}
			return false
		}
		bad := ""
		nsucc := 0
		okp := enumPaths(fn, nil, isEvent, nil, func(e pathExit) {
			ret, isRet := e.Last.(*ssa.Return)
			if !isRet || len(ret.Results) == 0 || bad != "" {
				return
			}
			if os.Getenv("SACHECK_DEBUG") != "" {
				fmt.Fprintf(os.Stderr, "DEBUG R10.16 %s ret@%s maybeNil=%v events=%d\n", nt.Obj().Name(), w.Pos(ret.Pos()), errMaybeNil(e.State, ret.Results[len(ret.Results)-1], 0), len(e.State.Events))
				for _, ev := range e.State.Events {
					fmt.Fprintf(os.Stderr, "   ev %s @%s\n", ev.String(), w.Pos(ev.Pos()))
				}
			}
			if !errMaybeNil(e.State, ret.Results[len(ret.Results)-1], 0) {
				return
			}
			// the error of ReadString(d) is nil only if the delimiter occurs in the text: for an answer of the
			// tunnel's own server that is the case iff the encoder of this type writes d after the text
			// an explicit `return nil` is a decision (an empty answer is an answer); what is looked for is the accidental
			// success: a wrapped error variable that turns out nil
			rv := e.State.Resolve(ret.Results[len(ret.Results)-1])
			if isConstNil(rv) {
				return
			}
			if d, isRS := readStringDelimiterOf(rv); isRS && !encoderTerminatesText(w.SSAFunc(methodOf(nt, "Encode")), d) {
				return
			}
			nsucc++
			if len(e.State.Events) == 0 {
				bad = fmt.Sprintf("%s: Decode can return a nil error here without having stored anything into the answer (errors.WithStack/Wrap of a nil error is nil — e.g. ReadString found its delimiter): the client receives a well-formed, zero-valued %s — a refusal arrives as a granted, empty answer", w.Pos(ret.Pos()), nt.Obj().Name())
			}
		})
		if !okp {
			r.Undecided(rule, key, w.Pos(fn.Pos()), "path budget exceeded")
			continue
		}
		r.Check(bad == "", rule, key, w.Pos(fn.Pos()), fmt.Sprintf("%d return path(s) whose wrapped error can turn out nil, each after a store into the answer", nsucc), bad)
	}
	if n == 0 {
		r.Undecided(rule, "types", "-", "no response type found")
	}
}

// readStringDelimiterOf: v is (a pkg/errors wrapping of) the error result of (*bytes.Buffer).ReadString(d), d constant.
func readStringDelimiterOf(v ssa.Value) (int64, bool) {
	for i := 0; i < 4; i++ {
		c, ok := v.(*ssa.Call)
		if !ok {
			break
		}
		f := sCallee(c)
		if f == nil || f.Pkg() == nil || f.Pkg().Path() != "github.com/pkg/errors" || len(c.Call.Args) == 0 {
			break
		}
		v = c.Call.Args[0]
	}
	for _, root := range provenance(v, provOpts{}) {
		ex, ok := root.(*ssa.Extract)
		if !ok || ex.Index != 1 {
			continue
		}
		c, ok := ex.Tuple.(*ssa.Call)
		if !ok || !isMethod(sCallee(c), "bytes", "Buffer", "ReadString") || len(c.Call.Args) < 2 {
			continue
		}
		if d, isC := constIntVal(c.Call.Args[1]); isC {
			return d, true
		}
	}
	return 0, false
}

// encoderTerminatesText: does enc write the byte d after (dominated by) a WriteString / Write of a text?
func encoderTerminatesText(enc *ssa.Function, d int64) bool {
	if enc == nil {
		return true // unknown: assume it can
	}
	var texts, terms []ssa.Instruction
	for _, g := range staticCone(enc, 1) {
		if g != enc {
			continue
		}
		allInstrs(g, func(in ssa.Instruction) {
			c, ok := in.(*ssa.Call)
			if !ok {
				return
			}
			f := sCallee(c)
			if isMethod(f, "bytes", "Buffer", "WriteString") {
				texts = append(texts, in)
			}
			if isMethod(f, "bytes", "Buffer", "WriteByte") && len(c.Call.Args) == 2 {
				if k, isC := constIntVal(c.Call.Args[1]); isC && k == d {
					terms = append(terms, in)
				}
			}
		})
	}
	for _, t := range terms {
		for _, x := range texts {
			if instrDominates(x, t) {
				return true
			}
		}
	}
	return false
}

// ruleNoTypedNilResult: a function whose result is an interface must not hand back a nil POINTER of a concrete
// type wrapped into that interface: `stream, err := open(); return stream, err` with `open` returning
// (*T)(nil) on failure gives the caller a non-nil interface — its `if x != nil` guards (TryClose, LogClose) no
// longer protect it and the first method call on the nil pointer crashes the process. Every return that converts
// the pointer result of a module function to an interface is on a path on which that call's error is known nil,
// or the callee never returns a nil pointer.
func ruleNoTypedNilResult(w *World, r *Report, rule string, fns []*ssa.Function, consequence string) {
	n := 0
	for _, fn := range fns {
		hasIface := false
		res := fn.Signature.Results()
		for i := 0; i < res.Len(); i++ {
			if _, ok := res.At(i).Type().Underlying().(*types.Interface); ok && !isErrorType(res.At(i).Type()) {
				hasIface = true
			}
		}
		if !hasIface || len(fn.Blocks) == 0 {
			continue
		}
		n++
		key := "func:" + ssaFuncKey(fn) + "|typed-nil"
		bad := ""
		okp := enumPaths(fn, nil, nil, nil, func(e pathExit) {
			ret, isRet := e.Last.(*ssa.Return)
			if !isRet || bad != "" {
				return
			}
			for i, rv := range ret.Results {
				if i >= res.Len() || isErrorType(res.At(i).Type()) {
					continue
				}
				mi, ok := e.State.Resolve(rv).(*ssa.MakeInterface)
				if !ok {
					continue
				}
				if _, isPtr := mi.X.Type().Underlying().(*types.Pointer); !isPtr {
					continue
				}
				x := e.State.Resolve(mi.X)
				if isConstNil(x) {
					bad = fmt.Sprintf("%s: returns the nil pointer of type %s as %s: the interface is not nil", w.Pos(ret.Pos()), mi.X.Type(), res.At(i).Type())
					return
				}
				ex, ok := x.(*ssa.Extract)
				if !ok {
					continue
				}
				call, ok := ex.Tuple.(*ssa.Call)
				if !ok {
					continue
				}
				h := call.Call.StaticCallee()
				if h == nil || !inModule(h) || len(h.Blocks) == 0 {
					continue
				}
				// can h return a nil pointer in that position?
				nilPossible := false
				allInstrs(h, func(in ssa.Instruction) {
					if hr, ok := in.(*ssa.Return); ok && ex.Index < len(hr.Results) {
						for _, root := range provenance(hr.Results[ex.Index], provOpts{}) {
							if isConstNil(root) {
								nilPossible = true
							}
						}
					}
				})
				if !nilPossible {
					continue
				}
				// on this path, is the call's error known nil (then the pointer is the good one)?
				safe := false
				if call.Referrers() != nil {
					for _, ref := range *call.Referrers() {
						if ee, ok := ref.(*ssa.Extract); ok && isErrorType(ee.Type()) {
							if isNil, known := e.State.NilKnown(ee); known && isNil {
								safe = true
							}
						}
					}
				}
				if isNil, known := e.State.NilKnown(x); known && !isNil {
					safe = true
				}
				if !safe {
					bad = fmt.Sprintf("%s: the %s that %s returns — nil when it fails — is converted to %s and returned without the error having been tested: on failure the caller receives a non-nil interface holding a nil pointer", w.Pos(ret.Pos()), mi.X.Type(), ssaFuncKey(h), res.At(i).Type())
				}
			}
		})
		if !okp {
			r.Undecided(rule, key, w.Pos(fn.Pos()), "path budget exceeded")
			continue
		}
		r.Check(bad == "", rule, key, w.Pos(fn.Pos()), "no nil pointer of a concrete type is returned inside an interface result", bad+consequence)
	}
	if n == 0 {
		r.Hold(rule, "funcs:none", "-", "no function with an interface result in scope")
	}
}

// ruleNoPanickingAssertionOnPeerPath: a type assertion without comma-ok panics when the value is nil or of
// another type. On the goroutine that serves one logical connection nothing recovers: the panic takes down the
// process and with it every other connection. In the server's per-connection code every such assertion is on a
// value whose dynamic type is certain (it was just built from that concrete type).
func ruleNoPanickingAssertionOnPeerPath(w *World, r *Report, rule string, fns []*ssa.Function, consequence string) {
	n := 0
	var bad []string
	for _, fn := range fns {
		allInstrs(fn, func(in ssa.Instruction) {
			ta, ok := in.(*ssa.TypeAssert)
			if !ok || ta.CommaOk {
				return
			}
			n++
			certain := true
			roots := provenance(ta.X, provOpts{})
			if len(roots) == 0 {
				certain = false
			}
			for _, root := range roots {
				mi, ok := root.(*ssa.MakeInterface)
				if !ok || !types.Identical(mi.X.Type(), ta.AssertedType) {
					certain = false
				}
			}
			if !certain {
				bad = append(bad, fmt.Sprintf("%s: %s asserts %s without comma-ok on a value that can be nil or of another type (%s)", w.Pos(ta.Pos()), ssaFuncKey(fn), ta.AssertedType, describeValue(w, ta.X)))
			}
		})
	}
	sort.Strings(bad)
	r.Check(len(bad) == 0, rule, "assertions:per-connection-code", "-", fmt.Sprintf("%d type assertion(s) without comma-ok, each on a value just built from that type", n), strings.Join(bad, "; ")+consequence)
}

// c11ProbeHeaderCoversDataHeader: R11.14 — the downstream fragment size is found by asking the server for answers
// of a given payload size and is then used for data answers. What the probe verifies is "header + payload fits
// the path"; it carries over to data answers only if the data answer's header is no longer than the probe
// answer's. (Both are 5 bytes: status + 4, status + ack + seq.)
func c11ProbeHeaderCoversDataHeader(w *World, r *Report) {
	rule := "R11.14"
	key := "pair:TestDownstreamFragmentSizeResponse~PacketResponse|header-width"
	probeT := w.Named("internal/streams/dns/commands", "TestDownstreamFragmentSizeResponse")
	dataT := w.Named("internal/streams/dns/commands", "PacketResponse")
	pe, de := w.SSAFunc(methodOf(probeT, "Encode")), w.SSAFunc(methodOf(dataT, "Encode"))
	if pe == nil || de == nil {
		r.Undecided(rule, key, "-", "anchor unresolved")
		return
	}
	widths := func(fn *ssa.Function) (min, max int, n int, why string) {
		li := extractLayout(w, fn, nil, true, 0)
		if li.Undecided != "" {
			return 0, 0, 0, li.Undecided
		}
		min, max = 1<<30, -1
		for _, p := range li.Paths {
			// the payload-carrying layouts: ... blob at the end, after at least the status byte; error texts (status
			// with the error flag) are not payload
			last := -1
			for i, op := range p.Ops {
				if op.Kind == "blob" && op.Field != "" && !strings.Contains(op.Field, "Err") {
					last = i
				}
			}
			if last < 0 {
				continue
			}
			wd := 0
			for _, op := range p.Ops[:last] {
				if op.Size <= 0 {
					return 0, 0, 0, "a header field of unknown width before the payload"
				}
				wd += op.Size
			}
			n++
			if wd < min {
				min = wd
			}
			if wd > max {
				max = wd
			}
		}
		return
	}
	pmin, _, pn, pwhy := widths(pe)
	_, dmax, dn, dwhy := widths(de)
	if pwhy != "" || dwhy != "" || pn == 0 || dn == 0 {
		r.Undecided(rule, key, w.Pos(pe.Pos()), "payload layouts not recognised: "+pwhy+dwhy+mapStr(pn == 0, " no payload path in the probe answer")+mapStr(dn == 0, " no payload path in the data answer"))
		return
	}
	r.Check(pmin >= dmax, rule, key, w.Pos(pe.Pos()), fmt.Sprintf("probe answer header %d byte(s) >= data answer header %d byte(s)", pmin, dmax),
		fmt.Sprintf("the probe answer carries %d header byte(s) before its payload, the data answer %d: a payload size the probe has verified makes a data answer %d byte(s) larger than anything that was verified — on a path where the record holds one host name the handshake succeeds and the first full-size answer can never be sent", pmin, dmax, dmax-pmin))
}

// c15ListenerLoopSurvivesAcceptErrors: R15.8 — an endpoint's accept loop is the only thing that ever serves its
// listener. An Accept error is usually transient (EMFILE when stalled peers hold the descriptors, ENOBUFS, a
// handshake error of a wrapped listener): the loop must go on. It may leave only on the server's own shutdown
// flag, or where the error says the listener itself is closed — never on a classification of the error such as
// "not a timeout", which turns one failure caused by some peers into a dead endpoint for all the others.
func c15ListenerLoopSurvivesAcceptErrors(w *World, r *Report) {
	rule := "R15.8"
	n := 0
	for _, al := range findAcceptLoops(w) {
		if al.Kind != "listener" || al.Outer != nil {
			continue
		}
		top := al.Fn
		for top.Parent() != nil {
			top = top.Parent()
		}
		if top.Pkg == nil || !strings.HasSuffix(top.Pkg.Pkg.Path(), "/internal/server") {
			continue // the server's endpoints; the client's local listener is stopped through a channel
		}
		n++
		key := "loop:" + ssaFuncKey(al.Fn) + "|survives-accept-errors"
		fn := al.Fn
		isDoneLoad := func(v ssa.Value) bool {
			for _, root := range provenance(v, provOpts{}) {
				u, ok := root.(*ssa.UnOp)
				if !ok {
					continue
				}
				fa, ok := u.X.(*ssa.FieldAddr)
				if !ok {
					continue
				}
				if b, ok := fieldVarOf(fa).Type().Underlying().(*types.Basic); ok && b.Kind() == types.Bool {
					return true // a boolean field of the server object: its shutdown flag
				}
			}
			boolFieldGetter := func(h *ssa.Function) bool {
				if h == nil || len(h.Blocks) == 0 {
					return false
				}
				only, found := true, false
				allInstrs(h, func(in ssa.Instruction) {
					if ret, ok := in.(*ssa.Return); ok && len(ret.Results) == 1 {
						for _, root := range provenance(ret.Results[0], provOpts{}) {
							if u, ok := root.(*ssa.UnOp); ok {
								if fa, ok := u.X.(*ssa.FieldAddr); ok {
									if b, ok := fieldVarOf(fa).Type().Underlying().(*types.Basic); ok && b.Kind() == types.Bool {
										found = true
										continue
									}
								}
							}
							only = false
						}
					}
				})
				return found && only
			}
			// `srv.stopped()` through an interface: every implementer in the module is a getter of a boolean field
			if c, ok := v.(*ssa.Call); ok && c.Call.IsInvoke() && c.Call.Method.Type().(*types.Signature).Params().Len() == 0 {
				if it, ok := c.Call.Value.Type().Underlying().(*types.Interface); ok {
					impls := w.Implementers(it)
					all := len(impls) > 0
					for _, im := range impls {
						if !boolFieldGetter(w.SSAFunc(methodOf(im, c.Call.Method.Name()))) {
							all = false
						}
					}
					if all {
						return true
					}
				}
			}
			if c, ok := v.(*ssa.Call); ok {
				if h := c.Call.StaticCallee(); h != nil && inModule(h) && h.Signature.Results().Len() == 1 {
					// `st.stopped()` accessor
					only := true
					found := false
					allInstrs(h, func(in ssa.Instruction) {
						if ret, ok := in.(*ssa.Return); ok && len(ret.Results) == 1 {
							for _, root := range provenance(ret.Results[0], provOpts{}) {
								if u, ok := root.(*ssa.UnOp); ok {
									if fa, ok := u.X.(*ssa.FieldAddr); ok {
										if b, ok := fieldVarOf(fa).Type().Underlying().(*types.Basic); ok && b.Kind() == types.Bool {
											found = true
											continue
										}
									}
								}
								only = false
							}
						}
					})
					return found && only
				}
			}
			return false
		}
		saysClosed := func(v ssa.Value) bool {
			c, ok := v.(*ssa.Call)
			if !ok {
				return false
			}
			f := sCallee(c)
			if f != nil && f.Pkg() != nil && f.Pkg().Path() == "strings" && f.Name() == "Contains" && len(c.Call.Args) == 2 {
				s, isC := constStrVal(c.Call.Args[1])
				return isC && strings.Contains(s, "closed network connection")
			}
			if f != nil && f.Pkg() != nil && f.Pkg().Path() == "errors" && f.Name() == "Is" && len(c.Call.Args) == 2 {
				if g := codecGlobal(c.Call.Args[1]); g != nil && g.Name() == "ErrClosed" {
					return true
				}
			}
			if h := c.Call.StaticCallee(); h != nil && inModule(h) && len(h.Blocks) > 0 {
				return predicateHelperImplies(h, true, func(facts map[ssa.Value]bool) bool {
					for v2, t2 := range facts {
						if c2, ok := v2.(*ssa.Call); ok && t2 {
							if f2 := sCallee(c2); f2 != nil && f2.Pkg() != nil && f2.Pkg().Path() == "strings" && f2.Name() == "Contains" && len(c2.Call.Args) == 2 {
								if s, isC := constStrVal(c2.Call.Args[1]); isC && strings.Contains(s, "closed network connection") {
									return true
								}
							}
						}
					}
					return false
				})
			}
			return false
		}
		bad := ""
		nexits := 0
		for b := range al.Loop {
			for si, succ := range b.Succs {
				if al.Loop[succ] {
					continue
				}
				nexits++
				// the condition that sends control out of the loop here
				ifi, ok := b.Instrs[len(b.Instrs)-1].(*ssa.If)
				justified := false
				if ok {
					cond := ifi.Cond
					neg := si == 1
					if u, isNot := cond.(*ssa.UnOp); isNot && u.Op == token.NOT {
						cond, neg = u.X, !neg
					}
					if isDoneLoad(cond) {
						justified = true
					}
					if !neg && saysClosed(cond) {
						justified = true
					}
				}
				// an unconditional jump out (break inside a branch): the branch it sits in must be a done/closed branch
				if !justified {
					if dominatedByCond(fn, b.Instrs[len(b.Instrs)-1], isDoneLoad, true) || dominatedByCond(fn, b.Instrs[len(b.Instrs)-1], saysClosed, true) {
						justified = true
					}
				}
				if !justified && bad == "" {
					bad = fmt.Sprintf("%s: the accept loop can be left here on a condition that is neither the server's shutdown flag nor 'the listener is closed': an Accept error that merely is not a timeout (EMFILE while stalled peers hold the descriptors, ENOBUFS) ends the loop, the listener stays open, and every later client waits in the backlog for ever", w.Pos(b.Instrs[len(b.Instrs)-1].Pos()))
				}
			}
		}
		r.Check(bad == "", rule, key, w.Pos(al.Call.Pos()), fmt.Sprintf("%d way(s) out of the loop, each on the shutdown flag or a closed listener", nexits), bad)
	}
	if n == 0 {
		r.Undecided(rule, "loops", "-", "no listener accept loop found")
	}
}

// ruleSharedConnectionForgottenOnlyWhenDead: the configured Upstream object IS the net.Conn handed to the
// multiplexer, and a re-dial stores the new physical connection into that same object. Forgetting the shared
// connection/session (storing nil) while the old session is still alive makes the next Connect re-dial under a
// living session: two sessions then write frames into one physical connection and the bytes of one logical
// connection arrive at another's target. The fields are set to nil only where the reuse test has just found the
// connection nil or closed, or after it was closed on that path.
func ruleSharedConnectionForgottenOnlyWhenDead(w *World, r *Report, rule string) {
	ups := w.Named("internal/client/upstream", "Upstreams")
	_, connF, sessF := upstreamsSharedFields(w)
	if ups == nil || connF == nil || sessF == nil {
		r.Undecided(rule, "type:client/upstream.Upstreams", "-", "anchor unresolved")
		return
	}
	unusable := func(v ssa.Value, t bool) bool {
		if x, eqNil, ok := nilTest(v); ok && isLoadOfField(x, connF) {
			return t == eqNil
		}
		if c, ok := v.(*ssa.Call); ok && c.Call.IsInvoke() && c.Call.Method.Name() == "Closed" && t {
			for _, root := range provenance(c.Call.Value, provOpts{}) {
				if isLoadOfField(root, connF) {
					return true
				}
			}
		}
		if hc, ok := v.(*ssa.Call); ok {
			if h := hc.Call.StaticCallee(); h != nil && inModule(h) && len(h.Blocks) > 0 {
				return predicateHelperImplies(h, t, func(facts map[ssa.Value]bool) bool {
					for v2, t2 := range facts {
						if x, eqNil, ok := nilTest(v2); ok && isLoadOfField(x, connF) && t2 == eqNil {
							return true
						}
						if c2, ok := v2.(*ssa.Call); ok && c2.Call.IsInvoke() && c2.Call.Method.Name() == "Closed" && t2 {
							return true
						}
					}
					return false
				})
			}
		}
		return false
	}
	n := 0
	for _, fn := range pkgFuncs(w, "/internal/client/upstream") {
		k := 0
		allInstrs(fn, func(in ssa.Instruction) {
			st, ok := in.(*ssa.Store)
			if !ok || !isConstNil(st.Val) {
				return
			}
			fa, ok := st.Addr.(*ssa.FieldAddr)
			if !ok {
				return
			}
			fv := fieldVarOf(fa)
			if fv != connF && fv != sessF {
				return
			}
			n++
			k++
			key := fmt.Sprintf("field:client/upstream.Upstreams.%s|forget@%s#%d", fv.Name(), ssaFuncKey(fn), k)
			isClose := func(x ssa.Instruction) bool {
				c, ok := x.(ssa.CallInstruction)
				if !ok {
					return false
				}
				return isCloseOn(w, c, func(v ssa.Value) bool {
					for _, root := range provenance(v, provOpts{}) {
						if isLoadOfField(root, connF) || isLoadOfField(root, sessF) {
							return true
						}
					}
					return false
				})
			}
			msg := fmt.Sprintf("the shared %s is set to nil on a path on which it was neither found nil/closed nor closed: the session it belongs to lives on (its send loop holds the configured Upstream object), the next Connect re-dials INTO that object, and two sessions write frames into one physical connection — bytes written on one logical connection arrive at another's target", fv.Name())
			// justifiedAt: every path of g to `at` has closed the connection or found it nil/closed — or, for a helper
			// that makes no test of its own, every call site of the helper is justified in its caller
			var justifiedAt func(g *ssa.Function, at ssa.Instruction, depth int) (bool, bool)
			justifiedAt = func(g *ssa.Function, at ssa.Instruction, depth int) (ok bool, decided bool) {
				local := true
				okp := enumPaths(g, nil, isClose, func(x ssa.Instruction) bool { return x == at }, func(e pathExit) {
					if e.Stop == nil || !local {
						return
					}
					if len(e.State.Events) > 0 {
						return
					}
					for v, t := range e.State.Facts {
						if unusable(v, t) {
							return
						}
					}
					local = false
				})
				if !okp {
					return false, false
				}
				if local {
					return true, true
				}
				obj, _ := g.Object().(*types.Func)
				if obj == nil || depth >= 2 {
					return false, true
				}
				ncall := 0
				for _, caller := range pkgFuncs(w, "/internal/client/upstream") {
					for _, c := range callsIn(caller) {
						if sCallee(c) == obj && !c.Common().IsInvoke() {
							ncall++
							if _, isGo := c.(*ssa.Go); isGo {
								return false, true
							}
							o, d := justifiedAt(caller, c.(ssa.Instruction), depth+1)
							if !d {
								return false, false
							}
							if !o {
								return false, true
							}
						}
					}
				}
				return ncall > 0, true
			}
			bad := ""
			okj, decided := justifiedAt(fn, in, 0)
			okp := decided
			if decided && !okj {
				bad = msg
			}
			if !okp {
				r.Undecided(rule, key, w.Pos(st.Pos()), "path budget exceeded")
				return
			}
			r.Check(bad == "", rule, key, w.Pos(st.Pos()), "forgotten only where the connection was found nil/closed, or after closing it", bad)
		})
	}
	if n == 0 {
		r.Hold(rule, "field:client/upstream.Upstreams|forget:none", "-", "the shared connection/session are never set to nil")
	}
}

// c07EveryWaiterIsWoken: R07.21 — a reader that gave up on its deadline leaves its notifier on the in-queue's list
// (by design: the notifier is buffered and harmless). When data arrives the queue must therefore call EVERY
// registered notifier: calling only the first one can spend the wake-up on a reader that is gone, and the live
// reader behind it sleeps on queued, acknowledged data for ever.
func c07EveryWaiterIsWoken(w *World, r *Report) {
	rule := "R07.21"
	inq := w.Named("internal/streams/dns/util", "InQueue")
	key := "type:streams/dns/util.InQueue|notify-all"
	if inq == nil {
		r.Undecided(rule, key, "-", "anchor unresolved")
		return
	}
	// the list of waiters: a field of type []func()
	var listF *types.Var
	st := inq.Underlying().(*types.Struct)
	for i := 0; i < st.NumFields(); i++ {
		if sl, ok := st.Field(i).Type().Underlying().(*types.Slice); ok {
			if sig, ok := sl.Elem().Underlying().(*types.Signature); ok && sig.Params().Len() == 0 {
				listF = st.Field(i)
			}
		}
	}
	if listF == nil {
		r.Hold(rule, key, "-", "the in-queue keeps no list of waiter callbacks")
		return
	}
	nAll := 0
	bad := ""
	for _, fn := range pkgFuncs(w, "/internal/streams/dns/util") {
		for _, c := range callsIn(fn) {
			cc := c.Common()
			if cc.IsInvoke() || cc.StaticCallee() != nil {
				continue
			}
			// a call of an element of the list (directly, or in a helper that is handed the list)
			var ia *ssa.IndexAddr
			isList := false
			for _, cl := range calledListFields(w, pkgFuncs(w, "/internal/streams/dns/util"), fn, c) {
				if cl.f == listF {
					isList = true
				}
			}
			for _, root := range provenance(cc.Value, provOpts{}) {
				if u, ok := root.(*ssa.UnOp); ok {
					if x, ok := u.X.(*ssa.IndexAddr); ok && isList {
						ia = x
					}
				}
			}
			if ia == nil {
				continue
			}
			if _, isC := constIntVal(ia.Index); isC {
				bad = fmt.Sprintf("%s: only one registered waiter (a constant index) is notified when data arrives: a reader that timed out earlier still sits at the head of the list and swallows the wake-up — the reader that is really blocked is never woken although the data is queued and acknowledged", w.Pos(c.Pos()))
				continue
			}
			if cycleThrough(c.(ssa.Instruction).Block()) != nil {
				nAll++
			}
		}
	}
	r.Check(bad == "" && nAll > 0, rule, key, w.Pos(inq.Obj().Pos()), fmt.Sprintf("%d notification loop(s) over the whole list of waiters, no single-waiter wake-up", nAll), bad+mapStr(bad == "" && nAll == 0, "no loop that notifies the registered waiters was found"))
}

func isLoadOfFieldDeep(v ssa.Value, f *types.Var) bool {
	for _, root := range provenance(v, provOpts{}) {
		if isLoadOfField(root, f) {
			return true
		}
	}
	return isLoadOfField(v, f)
}

// c12ClientIndexesAnswerDataInBounds: R12.12 — the client's handshake probes look into the data of decoded answers
// after DecodeDnsResponse has returned, i.e. outside its recover. Every index / slice expression in the
// client-side functions of package dns is proven in bounds (A10) — an answer that is a proper prefix of what was
// expected (truncated on the way, or sent by a hostile resolver) must be refused, not indexed.
func c12ClientIndexesAnswerDataInBounds(w *World, r *Report) {
	rule := "R12.12"
	n := 0
	clientSide := map[*ssa.Function]bool{}
	for _, fn := range pkgFuncs(w, "/internal/streams/dns") {
		if rn := recvNamed(fnObj(fn)); rn != nil && rn.Obj().Name() == "ClientDnsConnection" {
			clientSide[fn] = true
			for _, g := range staticCone(fn, 2) {
				if g.Pkg == fn.Pkg && g.Signature.Recv() == nil {
					clientSide[g] = true
				}
			}
		}
	}
	for _, fn := range pkgFuncs(w, "/internal/streams/dns") {
		top := fn
		for top.Parent() != nil {
			top = top.Parent()
		}
		if top.Pkg == nil || !strings.HasSuffix(top.Pkg.Pkg.Path(), "/internal/streams/dns") || fn.Synthetic != "" {
			continue
		}
		// client side: methods of ClientDnsConnection and the free functions they call
		if !clientSide[top] {
			continue
		}
		cnt, issues := checkBounds(fn)
		if cnt == 0 {
			continue
		}
		n++
		key := "bounds:" + ssaFuncKey(fn)
		if len(issues) == 0 {
			r.Hold(rule, key, w.Pos(fn.Pos()), fmt.Sprintf("%d index/slice operation(s) proven in bounds", cnt))
			continue
		}
		// a free helper over byte slices (`firstMismatch(got, want)`, `checkCaseSwap(data)`): in bounds under a
		// simple precondition on the lengths of its parameters that every call site establishes
		if fn.Signature.Recv() == nil && fn.Parent() == nil {
			if pre := helperLengthPrecondition(w, fn); pre != "" {
				r.Hold(rule, key, w.Pos(fn.Pos()), fmt.Sprintf("%d index/slice operation(s) proven in bounds under the precondition %s, which every call site establishes", cnt, pre))
				continue
			}
		}
		// only expressions on the data of a decoded answer (a field of a commands.*Response / util.Packet, or a byte
		// slice parameter of a helper that is handed one): the client's own bookkeeping slices are not peer input
		nrep := 0
		for _, is := range issues {
			var base ssa.Value
			switch x := is.Instr.(type) {
			case *ssa.IndexAddr:
				base = x.X
			case *ssa.Index:
				base = x.X
			case *ssa.Slice:
				base = x.X
			case *ssa.Lookup:
				base = x.X
			}
			if base == nil {
				continue
			}
			fromAnswer := false
			for _, root := range provenance(base, provOpts{}) {
				if u, ok := root.(*ssa.UnOp); ok {
					if fa, ok := u.X.(*ssa.FieldAddr); ok {
						t := fa.X.Type()
						if pt, ok := t.Underlying().(*types.Pointer); ok {
							t = pt.Elem()
						}
						if nt, ok := t.(*types.Named); ok && nt.Obj().Pkg() != nil {
							pp := nt.Obj().Pkg().Path()
							if (strings.HasSuffix(pp, "/dns/commands") && strings.HasSuffix(nt.Obj().Name(), "Response")) || (strings.HasSuffix(pp, "/dns/util") && nt.Obj().Name() == "Packet") {
								fromAnswer = true
							}
						}
					}
				}
				if pa, ok := root.(*ssa.Parameter); ok && fn.Signature.Recv() == nil && isStringOrBytes(pa.Type()) {
					fromAnswer = true
				}
			}
			if !fromAnswer {
				continue
			}
			nrep++
			r.Violate(rule, key, w.Pos(is.Instr.Pos()), is.What+": an answer shorter than expected makes this expression panic outside the decoder's recover — the client process dies of one truncated or crafted answer")
		}
		if nrep == 0 {
			r.Hold(rule, key, w.Pos(fn.Pos()), fmt.Sprintf("%d index/slice operation(s); those on answer data are proven in bounds", cnt))
		}
	}
	if n == 0 {
		r.Undecided(rule, "bounds", "-", "no index/slice operation found in the client-side functions (anchors moved?)")
	}
}

// helperLengthPrecondition: a precondition of the form len(p_i) == len(p_j), len(p_i) >= len(p_j) or len(p_i) >= K
// under which every index/slice expression of fn is proven in bounds, and which A10 proves at every static call
// site of fn in the module. "" if there is none.
func helperLengthPrecondition(w *World, fn *ssa.Function) string {
	type cand struct {
		name  string
		apply func(s *lsys, args []ssa.Value)
		holds func(s *lsys, args []ssa.Value) bool
	}
	var slices []int
	for i, p := range fn.Params {
		if isStringOrBytes(p.Type()) {
			slices = append(slices, i)
		}
	}
	var cands []cand
	for _, i := range slices {
		for _, j := range slices {
			if i == j {
				continue
			}
			i, j := i, j
			cands = append(cands, cand{
				name:  fmt.Sprintf("len(%s) >= len(%s)", fn.Params[i].Name(), fn.Params[j].Name()),
				apply: func(s *lsys, a []ssa.Value) { s.le(lenOf(a[j], 0), lenOf(a[i], 0)) },
				holds: func(s *lsys, a []ssa.Value) bool { return s.entails(lenOf(a[j], 0), lenOf(a[i], 0)) },
			})
		}
		for k := int64(1); k <= 4; k++ {
			i, k := i, k
			cands = append(cands, cand{
				name:  fmt.Sprintf("len(%s) >= %d", fn.Params[i].Name(), k),
				apply: func(s *lsys, a []ssa.Value) { s.le(linConst(k), lenOf(a[i], 0)) },
				holds: func(s *lsys, a []ssa.Value) bool { return s.entails(linConst(k), lenOf(a[i], 0)) },
			})
		}
	}
	params := make([]ssa.Value, len(fn.Params))
	for i, p := range fn.Params {
		params[i] = p
	}
	// try single candidates, then pairs
	try := func(cs []cand) bool {
		assumedFacts[fn] = nil
		for _, c := range cs {
			c := c
			assumedFacts[fn] = append(assumedFacts[fn], func(s *lsys) { c.apply(s, params) })
		}
		_, issues := checkBounds(fn)
		delete(assumedFacts, fn)
		if len(issues) != 0 {
			return false
		}
		ncall := 0
		for _, g := range sortedFuncs(allModuleFuncs(w, w.SSA())) {
			for _, c := range callsIn(g) {
				if c.Common().StaticCallee() != fn {
					continue
				}
				ncall++
				ci, ok := c.(ssa.Instruction)
				if !ok || len(c.Common().Args) != len(fn.Params) {
					return false
				}
				sys := factsAt(ci)
				for _, cd := range cs {
					if !cd.holds(sys, c.Common().Args) {
						return false
					}
				}
			}
		}
		return ncall > 0
	}
	for _, c := range cands {
		if try([]cand{c}) {
			return c.name
		}
	}
	for i := range cands {
		for j := i + 1; j < len(cands); j++ {
			if try([]cand{cands[i], cands[j]}) {
				return cands[i].name + " and " + cands[j].name
			}
		}
	}
	return ""
}

// c19SafeCtorNeverRewrapsInner: R19.7 — a close-once wrapper owns ONE flag for one resource. A NewSafe* constructor
// that is handed such a wrapper hands it back; it never builds a second wrapper around the first one's raw
// resource (`&SafeConnection{Conn: scs.Conn}`): two flags would guard one resource and the second Close closes
// it again.
func c19SafeCtorNeverRewrapsInner(w *World, r *Report) {
	rule := "R19.7"
	p := w.Pkg("internal/streams")
	if p == nil {
		r.Undecided(rule, "anchor", "-", "anchor unresolved: package streams")
		return
	}
	n := 0
	for _, fn := range pkgFuncs(w, "/internal/streams") {
		if fn.Parent() != nil || fn.Signature.Recv() != nil || !strings.HasPrefix(fn.Name(), "NewSafe") {
			continue
		}
		n++
		key := "func:" + ssaFuncKey(fn) + "|no-rewrap"
		bad := ""
		allInstrs(fn, func(in ssa.Instruction) {
			st, ok := in.(*ssa.Store)
			if !ok || bad != "" {
				return
			}
			fa, ok := st.Addr.(*ssa.FieldAddr)
			if !ok {
				return
			}
			// a store into a field of a freshly allocated wrapper ...
			if _, isAlloc := fa.X.(*ssa.Alloc); !isAlloc {
				return
			}
			// ... of a value read from a field of another wrapper of the package (x.Conn, x.inner)
			for _, root := range provenance(st.Val, provOpts{}) {
				u, ok := root.(*ssa.UnOp)
				if !ok {
					continue
				}
				fa2, ok := u.X.(*ssa.FieldAddr)
				if !ok {
					continue
				}
				t := fa2.X.Type()
				if pt, ok := t.Underlying().(*types.Pointer); ok {
					t = pt.Elem()
				}
				if nt, ok := t.(*types.Named); ok && nt.Obj().Pkg() == p.Types && strings.HasPrefix(nt.Obj().Name(), "Safe") {
					bad = fmt.Sprintf("%s: the constructor wraps the raw resource taken out of an existing %s (field %s) in a new wrapper: two closed flags guard one resource — the second Close closes it again and reports the resource's 'already closed' error", w.Pos(st.Pos()), nt.Obj().Name(), fieldVarOf(fa2).Name())
				}
			}
		})
		r.Check(bad == "", rule, key, w.Pos(fn.Pos()), "an existing close-once wrapper is handed back as it is, never unwrapped into a second one", bad)
	}
	if n == 0 {
		r.Undecided(rule, "ctors", "-", "no NewSafe* constructor found")
	}
}

// c12SessionsShareNoListenerState: R12.13 — a session object never holds a pointer into the listener object: what
// is per session (codec options, fragment size, flags) is a copy. `Serializer: &s.DefaultSerializer` makes every
// session's set-options query rewrite the options of all the others and of the listener's defaults.
func c12SessionsShareNoListenerState(w *World, r *Report, rule string) {
	sl := w.Named("internal/streams/dns", "ServerDnsListener")
	uc := w.Named("internal/streams/dns", "userConnection")
	key := "type:streams/dns.userConnection|no-pointer-into-listener"
	if sl == nil || uc == nil {
		r.Undecided(rule, key, "-", "anchor unresolved")
		return
	}
	bad := ""
	n := 0
	for _, fn := range pkgFuncs(w, "/internal/streams/dns") {
		allInstrs(fn, func(in ssa.Instruction) {
			st, ok := in.(*ssa.Store)
			if !ok || bad != "" {
				return
			}
			fa, ok := st.Addr.(*ssa.FieldAddr)
			if !ok || !recvIs(fa, uc) {
				return
			}
			n++
			// the address of a field of the listener (not a copy of its value)
			for _, root := range provenance(st.Val, provOpts{}) {
				if fa2, ok := root.(*ssa.FieldAddr); ok && recvIs(fa2, sl) {
					if _, isPtr := st.Val.Type().Underlying().(*types.Pointer); isPtr {
						bad = fmt.Sprintf("%s: the session's field %s is given the ADDRESS of the listener's %s: all sessions share it — one peer's set-options query changes the codecs, fragment size and flags of every other session (their next query is decoded with the wrong codec) and of the defaults new sessions start with", w.Pos(st.Pos()), fieldVarOf(fa).Name(), fieldVarOf(fa2).Name())
					}
				}
			}
		})
	}
	r.Check(bad == "" && n > 0, rule, key, w.Pos(uc.Obj().Pos()), fmt.Sprintf("%d store(s) into session fields, none of a pointer into the listener", n), bad+mapStr(n == 0, "no store into a session object found"))
}

// c13NewSessionTakesEmptySlotOnly: R13.11 — a new session is stored into the live table only at an index whose live
// entry has just been found nil: every non-nil store `connections[i] = u` is dominated by the true edge of
// `connections[i] == nil` (same index), or `i` comes from a scan whose loop body established it.
func c13NewSessionTakesEmptySlotOnly(w *World, r *Report) {
	rule := "R13.11"
	sl := w.Named("internal/streams/dns", "ServerDnsListener")
	uc := w.Named("internal/streams/dns", "userConnection")
	key := "type:streams/dns.ServerDnsListener|store-into-empty-slot"
	if sl == nil || uc == nil {
		r.Undecided(rule, key, "-", "anchor unresolved")
		return
	}
	live := fieldByType(sl, func(t types.Type) bool {
		slc, ok := t.(*types.Slice)
		if !ok {
			return false
		}
		pt, ok := slc.Elem().(*types.Pointer)
		return ok && types.Identical(pt.Elem(), uc)
	})
	if live == nil {
		r.Undecided(rule, key, "-", "live session table not found")
		return
	}
	n := 0
	bad := ""
	for _, fn := range pkgFuncs(w, "/internal/streams/dns") {
		allInstrs(fn, func(in ssa.Instruction) {
			st, ok := in.(*ssa.Store)
			if !ok || isConstNil(st.Val) || bad != "" {
				return
			}
			ia, ok := st.Addr.(*ssa.IndexAddr)
			if !ok || !isLoadOfFieldDeep(ia.X, live) {
				return
			}
			n++
			// a dominating `live[idx] == nil` (true edge) on the same index value, or on the loop's element for a
			// range loop (`for i, u := range live { if u == nil {`): the element value is the load of live[i]
			emptyTest := func(g *ssa.Function, idx ssa.Value, wantEq bool) func(v ssa.Value) bool {
				idxRoots := provenance(idx, provOpts{})
				return func(v ssa.Value) bool {
					x, eqNil, ok := nilTest(v)
					if !ok || eqNil != wantEq {
						return false
					}
					for _, root := range provenance(x, provOpts{}) {
						u, ok := root.(*ssa.UnOp)
						if !ok {
							continue
						}
						ia2, ok := u.X.(*ssa.IndexAddr)
						if !ok || !isLoadOfFieldDeep(ia2.X, live) {
							continue
						}
						if ia2.Index == idx {
							return true
						}
						for _, r1 := range idxRoots {
							for _, r2 := range provenance(ia2.Index, provOpts{}) {
								if r1 == r2 {
									return true
								}
							}
						}
					}
					return false
				}
			}
			foundEmptyAt := func(g *ssa.Function, at ssa.Instruction, idx ssa.Value) bool {
				// `live[idx] == nil` on its true edge, or `live[idx] != nil` on its false edge (`if taken { continue }`)
				return dominatedByCond(g, at, emptyTest(g, idx, true), true) || dominatedByCond(g, at, emptyTest(g, idx, false), false)
			}
			okEmpty := foundEmptyAt(fn, st, ia.Index)
			// the index comes out of a helper that returns only indexes of empty slots (or a negative "none")
			if !okEmpty {
				for _, root := range provenance(ia.Index, provOpts{}) {
					hc, ok := root.(*ssa.Call)
					if !ok {
						continue
					}
					h := hc.Call.StaticCallee()
					if h == nil || !inModule(h) || len(h.Blocks) == 0 || h.Signature.Results().Len() != 1 {
						continue
					}
					all, nret := true, 0
					allInstrs(h, func(in2 ssa.Instruction) {
						ret, ok := in2.(*ssa.Return)
						if !ok || len(ret.Results) != 1 {
							return
						}
						if k, isC := constIntVal(ret.Results[0]); isC && k < 0 {
							return // "none"
						}
						nret++
						if !foundEmptyAt(h, ret, ret.Results[0]) {
							all = false
						}
					})
					if all && nret > 0 {
						okEmpty = true
					}
				}
			}
			if !okEmpty {
				bad = fmt.Sprintf("%s: a session is stored into the live table at an index whose live entry was not found empty on this path (the index was chosen by looking at something else, e.g. the retired table): a live session that occupies the slot is overwritten — two peers hold one identifier, and the evicted one is answered BADIP for ever", w.Pos(st.Pos()))
			}
		})
	}
	r.Check(bad == "" && n > 0, rule, key, w.Pos(sl.Obj().Pos()), fmt.Sprintf("%d store(s) of a session into the live table, each under 'this slot is empty'", n), bad+mapStr(n == 0, "no store into the live table found"))
}

// c07WaitersWokenOnlyOnTheirCondition: R07.22 — the queues' waiters take ANY wake-up for "the condition I was
// waiting for holds" (`waitEmptyQueue` returns nil: the write is complete). The waiter callbacks may therefore be
// called only where that condition has just been established: under a test derived from the length of the queue's
// buffer. A wake-up from anywhere else (a deadline setter, a close) completes a blocked Write whose chunks are
// still unacknowledged: a write reported as successful that was not delivered.
func c07WaitersWokenOnlyOnTheirCondition(w *World, r *Report) {
	rule := "R07.22"
	fns := pkgFuncs(w, "/internal/streams/dns/util")
	reachesLen := func(cond ssa.Value, not map[*types.Var]bool) bool {
		found := false
		seen := map[ssa.Value]bool{}
		var walk func(v ssa.Value, d int)
		walk = func(v ssa.Value, d int) {
			if v == nil || d > 10 || seen[v] || found {
				return
			}
			seen[v] = true
			if c, ok := v.(*ssa.Call); ok {
				if b, ok := c.Call.Value.(*ssa.Builtin); ok && b.Name() == "len" && len(c.Call.Args) == 1 {
					for _, root := range provenance(c.Call.Args[0], provOpts{}) {
						if fa := asFieldAddr(root); fa != nil {
							if _, isSlice := fieldVarOf(fa).Type().Underlying().(*types.Slice); isSlice && !not[fieldVarOf(fa)] {
								found = true
							}
						}
						if u, ok := root.(*ssa.UnOp); ok {
							if fa, ok := u.X.(*ssa.FieldAddr); ok {
								if _, isSlice := fieldVarOf(fa).Type().Underlying().(*types.Slice); isSlice && !not[fieldVarOf(fa)] {
									found = true
								}
							}
						}
					}
				}
			}
			// a predicate helper (`q.isFull()`): what it returns
			if c, ok := v.(*ssa.Call); ok {
				if g := c.Call.StaticCallee(); g != nil && inModule(g) && d < 6 {
					for _, b := range g.Blocks {
						if ret, ok := b.Instrs[len(b.Instrs)-1].(*ssa.Return); ok {
							for _, res := range ret.Results {
								walk(res, d+2)
							}
						}
					}
				}
			}
			// a result spilled into a local because the function defers (`*t0 = x; rundefers; return *t0`)
			if u, ok := v.(*ssa.UnOp); ok && u.Op == token.MUL {
				if al, ok := u.X.(*ssa.Alloc); ok && al.Referrers() != nil {
					for _, ref := range *al.Referrers() {
						if st, ok := ref.(*ssa.Store); ok && st.Addr == ssa.Value(al) {
							walk(st.Val, d+1)
						}
					}
				}
			}
			// a flag kept in the queue (`queueHasData`): what is stored into it
			if u, ok := v.(*ssa.UnOp); ok && u.Op == token.MUL {
				if fa, ok := u.X.(*ssa.FieldAddr); ok {
					if bt, ok := fieldVarOf(fa).Type().Underlying().(*types.Basic); ok && bt.Kind() == types.Bool {
						fv := fieldVarOf(fa)
						for _, g := range fns {
							allInstrs(g, func(in ssa.Instruction) {
								if st, ok := in.(*ssa.Store); ok {
									if fa2, ok := st.Addr.(*ssa.FieldAddr); ok && fieldVarOf(fa2) == fv {
										walk(st.Val, d+2)
									}
								}
							})
						}
					}
				}
			}
			if in, ok := v.(ssa.Instruction); ok {
				for _, op := range in.Operands(nil) {
					if *op != nil {
						walk(*op, d+1)
					}
				}
			}
		}
		walk(cond, 0)
		return found
	}
	underLenTest := func(g *ssa.Function, at ssa.Instruction, not map[*types.Var]bool) bool {
		for _, b := range g.Blocks {
			ifi, ok := b.Instrs[len(b.Instrs)-1].(*ssa.If)
			if !ok {
				continue
			}
			for si := 0; si < 2; si++ {
				if edgeDominates(b, si, at.Block()) && reachesLen(ifi.Cond, not) {
					return true
				}
			}
		}
		return false
	}
	n := 0
	var bad []string
	for _, fn := range fns {
		for _, c := range callsIn(fn) {
			cc := c.Common()
			if cc.IsInvoke() || cc.StaticCallee() != nil {
				continue
			}
			lists := calledListFields(w, fns, fn, c)
			if len(lists) == 0 {
				continue
			}
			n++
			ci := c.(ssa.Instruction)
			not := map[*types.Var]bool{} // the length of the waiter list itself (the range loop's own test) says nothing
			for _, l := range lists {
				not[l.f] = true
			}
			ok := underLenTest(fn, ci, not)
			if !ok {
				// a helper that is handed the list: every call site of the helper is under the test
				obj := fnObj(fn)
				ncall, all := 0, true
				for _, g := range fns {
					for _, c2 := range callsIn(g) {
						if obj != nil && sCallee(c2) == obj {
							ncall++
							if !underLenTest(g, c2.(ssa.Instruction), not) && !wakesAsClosed(fns, g, c2.(ssa.Instruction), lists) {
								all = false
							}
						}
					}
				}
				ok = ncall > 0 && all
			}
			if !ok && wakesAsClosed(fns, fn, ci, lists) {
				ok = true // "the queue is closed": the waiters look at that flag when they wake up
			}
			if !ok {
				bad = append(bad, fmt.Sprintf("%s: %s calls the queue's waiter callbacks without having tested the queue's buffer: a waiter takes any wake-up for 'my condition holds' — a Write blocked on unacknowledged chunks returns (len, nil) and the caller's write-then-close drops them", w.Pos(c.Pos()), ssaFuncKey(fn)))
			}
		}
	}
	sort.Strings(bad)
	r.Check(len(bad) == 0 && n > 0, rule, "pkg:streams/dns/util|waiters-woken-on-condition", "-", fmt.Sprintf("%d place(s) call waiter callbacks, each under a test of the queue's buffer length", n), strings.Join(bad, "; ")+mapStr(n == 0, "no call of a waiter callback found"))
}

// c18ShutdownAfterFailedStartupIsSafe: R18.12 — a malformed server address makes Startup return an error with the
// server object half initialised (fields Startup assigns late are still nil). Shutdown implementations that use
// such a pointer field without a nil test are fine as long as Shutdown is only reached after a successful Startup.
// The rule: no call that leads to server.Server.Shutdown stands on the failing edge of a call that leads to
// server.Server.Startup, unless every Shutdown implementation tests the pointer fields it dereferences.
func c18ShutdownAfterFailedStartupIsSafe(w *World, r *Report) {
	rule := "R18.12"
	key := "iface:server.Server|shutdown-after-failed-startup"
	si := w.Interface("internal/server", "Server")
	if si == nil {
		r.Undecided(rule, key, "-", "anchor unresolved: server.Server")
		return
	}
	iface := si.Underlying().(*types.Interface)
	// Shutdown implementations that dereference a pointer field of the receiver without a nil test
	var unsafe []string
	nimpl := 0
	seenM := map[*types.Func]bool{}
	for _, n := range w.Implementers(si) {
		m := methodOf(n, "Shutdown")
		if m == nil || seenM[m] {
			continue
		}
		seenM[m] = true
		fn := w.SSAFunc(m)
		if fn == nil || len(fn.Params) == 0 {
			continue
		}
		nimpl++
		recv := fn.Params[0]
		ptrFieldLoad := func(v ssa.Value) *ssa.FieldAddr {
			u, ok := v.(*ssa.UnOp)
			if !ok || u.Op != token.MUL {
				return nil
			}
			fa, ok := u.X.(*ssa.FieldAddr)
			if !ok || fa.X != ssa.Value(recv) {
				return nil
			}
			if _, isPtr := u.Type().Underlying().(*types.Pointer); !isPtr {
				return nil
			}
			return fa
		}
		allInstrs(fn, func(in ssa.Instruction) {
			var used ssa.Value
			switch x := in.(type) {
			case *ssa.Call:
				if !x.Call.IsInvoke() && x.Call.Signature().Recv() != nil && len(x.Call.Args) > 0 {
					used = x.Call.Args[0]
				}
			case *ssa.FieldAddr:
				used = x.X
			case *ssa.UnOp:
				if x.Op == token.MUL {
					if _, isLoadOfPtr := x.X.(*ssa.FieldAddr); !isLoadOfPtr {
						used = x.X
					}
				}
			}
			if used == nil {
				return
			}
			fa := ptrFieldLoad(used)
			if fa == nil {
				return
			}
			fv := fieldVarOf(fa)
			guarded := dominatedByNonNil(fn, in, func(x ssa.Value) bool {
				f2 := ptrFieldLoad(x)
				return f2 != nil && fieldVarOf(f2) == fv
			})
			if !guarded {
				unsafe = append(unsafe, fmt.Sprintf("%s uses its field %s without a nil test (%s)", ssaFuncKey(fn), fv.Name(), w.Pos(in.Pos())))
			}
		})
	}
	sort.Strings(unsafe)
	unsafe = uniqStrings(unsafe)
	// which module functions lead to an invoke of Server.<name>?
	mod := allModuleFuncs(w, w.SSA())
	leadsTo := func(name string) map[*ssa.Function]bool {
		out := map[*ssa.Function]bool{}
		for fn := range mod {
			for _, c := range callsIn(fn) {
				cc := c.Common()
				if cc.IsInvoke() && cc.Method.Name() == name && types.Implements(cc.Value.Type(), iface) {
					out[fn] = true
				}
			}
		}
		for changed := true; changed; {
			changed = false
			for fn := range mod {
				if out[fn] {
					continue
				}
				for _, c := range callsIn(fn) {
					if g := c.Common().StaticCallee(); g != nil && out[g] {
						out[fn], changed = true, true
						break
					}
				}
				if !out[fn] {
					for _, an := range fn.AnonFuncs {
						if out[an] {
							out[fn], changed = true, true
							break
						}
					}
				}
			}
		}
		return out
	}
	starts, stops := leadsTo("Startup"), leadsTo("Shutdown")
	var bad []string
	nsites := 0
	for _, fn := range sortedFuncs(mod) {
		for _, c := range callsIn(fn) {
			g := c.Common().StaticCallee()
			if g == nil || !stops[g] {
				continue
			}
			nsites++
			ci := c.(ssa.Instruction)
			// on the failing edge of a start?
			afterFailedStart := dominatedByNonNil(fn, ci, func(x ssa.Value) bool {
				for _, root := range provenance(x, provOpts{}) {
					var call *ssa.Call
					switch y := root.(type) {
					case *ssa.Call:
						call = y
					case *ssa.Extract:
						call, _ = y.Tuple.(*ssa.Call)
					}
					if call != nil {
						if sg := call.Call.StaticCallee(); sg != nil && starts[sg] && !stops[sg] {
							return true
						}
					}
				}
				return false
			})
			if afterFailedStart && len(unsafe) > 0 {
				bad = append(bad, fmt.Sprintf("%s: %s shuts the servers down after a failed start, but %s: a server address that fails in Startup (missing port, unknown channel) leaves that field nil — the process dies with a nil dereference instead of reporting the configuration error", w.Pos(c.Pos()), ssaFuncKey(fn), unsafe[0]))
			}
		}
	}
	sort.Strings(bad)
	r.Check(len(bad) == 0 && nimpl > 0, rule, key, "-", fmt.Sprintf("%d Shutdown implementation(s), %d of them rely on a started server; none of the %d call(s) leading to Shutdown stands on the failing edge of a start", nimpl, len(unsafe), nsites), strings.Join(bad, "; ")+mapStr(nimpl == 0, "no Shutdown implementation found"))
}

// dominatedByNonNil: instruction in executes only when some value accepted by isVal was tested to be non-nil.
func dominatedByNonNil(fn *ssa.Function, in ssa.Instruction, isVal func(v ssa.Value) bool) bool {
	for _, b := range fn.Blocks {
		if len(b.Instrs) == 0 {
			continue
		}
		ifi, ok := b.Instrs[len(b.Instrs)-1].(*ssa.If)
		if !ok {
			continue
		}
		x, eqNil, ok := nilTest(ifi.Cond)
		if !ok || !isVal(x) {
			continue
		}
		succ := 0
		if eqNil {
			succ = 1
		}
		if edgeDominates(b, succ, in.Block()) {
			return true
		}
	}
	return false
}

// regexpGlobalPattern: the constant pattern a package-level *regexp.Regexp is compiled from.
func regexpGlobalPattern(w *World, gl *ssa.Global) (string, bool) {
	if gl == nil || gl.Pkg == nil || gl.Pkg.Pkg == nil {
		return "", false
	}
	p := w.ByPath[gl.Pkg.Pkg.Path()]
	if p == nil {
		return "", false
	}
	pat, found := "", false
	for _, f := range p.Syntax {
		ast.Inspect(f, func(x ast.Node) bool {
			vs, ok := x.(*ast.ValueSpec)
			if !ok {
				return true
			}
			for i, nm := range vs.Names {
				if p.TypesInfo.Defs[nm] == gl.Object() && i < len(vs.Values) {
					if call, ok := vs.Values[i].(*ast.CallExpr); ok && len(call.Args) == 1 {
						if sv, ok := constStr(p.TypesInfo, call.Args[0]); ok {
							pat, found = sv, true
						}
					}
				}
			}
			return true
		})
	}
	return pat, found
}

// c10DotRemovalIsByContent: R10.17 — the host-name record types (MX, SRV, CNAME) carry the encoded answer cut into
// labels; the server inserts the dots only above a label limit (`PrepareHostname`), and the client's unwrapper takes
// them out again. The remover must decide by CONTENT (delete the bytes that are '.': the codecs' alphabets never
// contain one), not by POSITION: a positional inverse of Dotify disagrees with the server's threshold for the
// lengths between Dotify's step and the label limit, and drops a payload character there.
func c10DotRemovalIsByContent(w *World, r *Report) {
	rule := "R10.17"
	key := "func:dns/util.UnwrapDnsResponse|dot-removal"
	un := w.SSAFunc(w.Func("internal/streams/dns/util", "UnwrapDnsResponse"))
	if un == nil {
		r.Undecided(rule, key, "-", "anchor unresolved: UnwrapDnsResponse")
		return
	}
	isDotOnlyPattern := func(p string) bool {
		return p == `\.` || p == `[.]` || p == `\.+` || p == `[.]+` || p == `\x2e` || p == `\x2E`
	}
	isEmpty := func(v ssa.Value) bool {
		if s, ok := constStrVal(v); ok {
			return s == ""
		}
		if c, ok := v.(*ssa.Const); ok && c.Value == nil {
			return true // nil []byte
		}
		if sl, ok := v.(*ssa.Slice); ok {
			_ = sl
		}
		if cv, ok := v.(*ssa.Convert); ok {
			if s, ok := constStrVal(cv.X); ok {
				return s == ""
			}
		}
		return false
	}
	isDot := func(v ssa.Value) bool {
		if s, ok := constStrVal(v); ok {
			return s == "."
		}
		if cv, ok := v.(*ssa.Convert); ok {
			if s, ok := constStrVal(cv.X); ok {
				return s == "."
			}
		}
		return false
	}
	// classify a function body: "content" (removes dots by testing for them), "position" (cuts the input at
	// constant offsets without looking), "" (something else)
	classify := func(fn *ssa.Function) (string, string) {
		kind, at := "", ""
		positional := ""
		allInstrs(fn, func(in ssa.Instruction) {
			switch x := in.(type) {
			case *ssa.Call:
				f := sCallee(x)
				if f == nil {
					return
				}
				args := x.Call.Args
				switch {
				case f.Pkg() != nil && f.Pkg().Path() == "regexp" && strings.HasPrefix(f.Name(), "ReplaceAll") && len(args) == 3:
					for _, root := range provenance(args[0], provOpts{}) {
						var gl *ssa.Global
						if u, ok := root.(*ssa.UnOp); ok {
							gl, _ = u.X.(*ssa.Global)
						}
						if g2, ok := root.(*ssa.Global); ok {
							gl = g2
						}
						if pat, ok := regexpGlobalPattern(w, gl); ok && isDotOnlyPattern(pat) && isEmpty(args[2]) {
							kind, at = "content", w.Pos(x.Pos())
						}
					}
				case f.Pkg() != nil && (f.Pkg().Path() == "strings" || f.Pkg().Path() == "bytes") && f.Name() == "ReplaceAll" && len(args) == 3:
					if isDot(args[1]) && isEmpty(args[2]) {
						kind, at = "content", w.Pos(x.Pos())
					}
				case f.Pkg() != nil && (f.Pkg().Path() == "strings" || f.Pkg().Path() == "bytes") && f.Name() == "Replace" && len(args) == 4:
					if n, ok := constIntVal(args[3]); ok && n < 0 && isDot(args[1]) && isEmpty(args[2]) {
						kind, at = "content", w.Pos(x.Pos())
					}
				}
			case *ssa.BinOp:
				if x.Op == token.EQL || x.Op == token.NEQ {
					for _, o := range []ssa.Value{x.X, x.Y} {
						if k, ok := constIntVal(o); ok && k == '.' {
							if bt, ok := o.Type().Underlying().(*types.Basic); ok && (bt.Kind() == types.Uint8 || bt.Kind() == types.Int32 || bt.Kind() == types.UntypedRune) {
								kind, at = "content", w.Pos(x.Pos())
							}
						}
					}
				}
			case *ssa.Slice:
				for _, bnd := range []ssa.Value{x.Low, x.High} {
					if bnd == nil {
						continue
					}
					// a positional remover works its way through the text: the cut stands in a loop
					if k, ok := constIntVal(bnd); ok && k > 2 && cycleThrough(x.Block()) != nil {
						positional = w.Pos(x.Pos())
					}
				}
			}
		})
		if kind == "" && positional != "" {
			return "position", positional
		}
		return kind, at
	}
	n := 0
	var bad []string
	if k, _ := classify(un); k == "content" {
		n++
	}
	seen := map[*ssa.Function]bool{}
	// the unwrapper and the helpers it is split into (the record switch and the host-name handling may each live
	// in a function of their own)
	for _, g := range staticCone(un, 3) {
		if g == un || seen[g] || g.Pkg == nil || !strings.HasPrefix(g.Pkg.Pkg.Path(), modPath) || len(g.Blocks) == 0 {
			continue
		}
		sig := g.Signature
		if sig.Params().Len() != 1 || sig.Results().Len() != 1 || !types.Identical(sig.Params().At(0).Type(), sig.Results().At(0).Type()) {
			// not a text-to-text helper: it may remove the dots inline
			if k, _ := classify(g); k == "content" && sig.Recv() == nil {
				seen[g] = true
				n++
			}
			continue
		}
		seen[g] = true
		k, at := classify(g)
		if k == "" {
			// one level of helpers
			for _, g2 := range staticCone(g, 1) {
				if g2 != g {
					if k2, at2 := classify(g2); k2 != "" && (k == "" || k2 == "content") {
						k, at = k2, at2
					}
				}
			}
		}
		switch k {
		case "content":
			n++
		case "position":
			bad = append(bad, fmt.Sprintf("%s: %s, which the client applies to the host-name answers, cuts its input at fixed offsets without testing for '.': the server (PrepareHostname) inserts dots only above the label limit, so for the lengths between the two thresholds a payload character is dropped — a silently different response", at, ssaFuncKey(g)))
		}
	}
	sort.Strings(bad)
	if len(bad) == 0 && n == 0 {
		r.Undecided(rule, key, w.Pos(un.Pos()), "no recognisable removal of the label dots in the unwrapper (regexp / ReplaceAll on \".\" / per-byte test)")
		return
	}
	r.Check(len(bad) == 0, rule, key, w.Pos(un.Pos()), fmt.Sprintf("%d dot remover(s) applied to host-name answers, each deleting bytes it tested to be '.'", n), strings.Join(bad, "; "))
}

// c14CloseReleasesCarrierOnEveryPath: R14.10 — Close of a connection object that owns a carrier (a field with a
// Close method that this Close calls somewhere) calls that carrier's Close on EVERY returning path, except paths
// on which the object was found closed already. A failed goodbye to the peer is exactly the situation in which
// the carrier was lost: returning the goodbye's error instead of going on leaves the socket, and the goroutine
// that polls through it, behind for good — nobody calls Close twice.
func c14CloseReleasesCarrierOnEveryPath(w *World, r *Report) {
	rule := "R14.10"
	n := 0
	for _, fn := range sortedFuncs(allModuleFuncs(w, w.SSA())) {
		if fn.Name() != "Close" || fn.Signature.Recv() == nil || fn.Pkg == nil || !strings.HasPrefix(fn.Pkg.Pkg.Path(), modPath+"/internal/streams") || len(fn.Params) == 0 || len(fn.Blocks) == 0 {
			continue
		}
		if _, isPtr := fn.Signature.Recv().Type().(*types.Pointer); !isPtr {
			continue
		}
		recv := fn.Params[0]
		// carrier close: Close invoked on (a load of) a field of the receiver, directly, through LogClose-like
		// helpers that close their argument, or in a deferred call
		fieldOfRecvX := func(v ssa.Value, recv ssa.Value) *types.Var {
			for _, root := range provenance(v, provOpts{}) {
				u, ok := root.(*ssa.UnOp)
				if !ok {
					continue
				}
				fa, ok := u.X.(*ssa.FieldAddr)
				if !ok {
					continue
				}
				for _, r2 := range provenance(fa.X, provOpts{}) {
					if r2 == recv {
						return fieldVarOf(fa)
					}
				}
			}
			return nil
		}
		fieldOfRecv := func(v ssa.Value) *types.Var { return fieldOfRecvX(v, recv) }
		closesArg := func(g *ssa.Function) bool {
			if g == nil || len(g.Params) == 0 || !inModule(g) {
				return false
			}
			found := false
			for _, c := range callsIn(g) {
				cc := c.Common()
				if cc.IsInvoke() && cc.Method.Name() == "Close" {
					for _, root := range provenance(cc.Value, provOpts{}) {
						if root == ssa.Value(g.Params[0]) {
							found = true
						}
					}
				}
			}
			return found
		}
		var carrierCloseX func(in ssa.Instruction, recv ssa.Value, depth int) *types.Var
		carrierCloseX = func(in ssa.Instruction, recv ssa.Value, depth int) *types.Var {
			c, ok := in.(ssa.CallInstruction)
			if !ok {
				return nil
			}
			cc := c.Common()
			if cc.IsInvoke() && cc.Method.Name() == "Close" {
				return fieldOfRecvX(cc.Value, recv)
			}
			if g := cc.StaticCallee(); g != nil {
				if g.Name() == "Close" && g.Signature.Recv() != nil && len(cc.Args) > 0 {
					if f := fieldOfRecvX(cc.Args[0], recv); f != nil {
						return f
					}
					// the embedded carrier: x.Inner.Close() on the address of a field
					if fa, ok := cc.Args[0].(*ssa.FieldAddr); ok && fa.X == recv {
						return fieldVarOf(fa)
					}
				}
				if closesArg(g) && len(cc.Args) > 0 {
					return fieldOfRecvX(cc.Args[0], recv)
				}
				// a helper method of the same object that closes the carrier on all its returning paths
				if depth < 2 && g != fn && inModule(g) && g.Signature.Recv() != nil && len(cc.Args) > 0 && cc.Args[0] == recv && len(g.Params) > 0 && len(g.Blocks) > 0 {
					var f *types.Var
					all := true
					okp := enumPaths(g, nil, func(x ssa.Instruction) bool {
						if fv := carrierCloseX(x, g.Params[0], depth+1); fv != nil {
							f = fv
							return true
						}
						return false
					}, nil, func(e pathExit) {
						if _, isRet := e.Last.(*ssa.Return); isRet && len(e.State.Events) == 0 {
							all = false
						}
					})
					if okp && all && f != nil {
						return f
					}
				}
			}
			return nil
		}
		carrierClose := func(in ssa.Instruction) *types.Var { return carrierCloseX(in, recv, 0) }
		var carrier *types.Var
		allInstrs(fn, func(in ssa.Instruction) {
			if f := carrierClose(in); f != nil && carrier == nil {
				carrier = f
			}
		})
		if carrier == nil {
			continue
		}
		n++
		key := "method:" + ssaFuncKey(fn) + "|carrier-closed-on-every-path"
		bad := ""
		npaths := 0
		okp := enumPaths(fn, nil, func(in ssa.Instruction) bool { return carrierClose(in) != nil }, nil, func(e pathExit) {
			if _, isRet := e.Last.(*ssa.Return); !isRet {
				return
			}
			npaths++
			if len(e.State.Events) > 0 {
				return
			}
			// excused: the object was found closed already on this path
			for v, t := range e.State.Facts {
				if !t {
					continue
				}
				switch x := v.(type) {
				case *ssa.Call:
					if x.Call.IsInvoke() && x.Call.Method.Name() == "Closed" {
						return
					}
					if f := sCallee(x); f != nil && f.Name() == "Closed" {
						return
					}
				case *ssa.UnOp:
					if fa, ok := x.X.(*ssa.FieldAddr); ok {
						// a flag of the receiver, possibly inside a struct it embeds by value
						base := fa.X
						for i := 0; i < 4; i++ {
							if f2, ok := base.(*ssa.FieldAddr); ok {
								base = f2.X
								continue
							}
							break
						}
						if bt, ok := fieldVarOf(fa).Type().Underlying().(*types.Basic); ok && bt.Kind() == types.Bool && base == ssa.Value(recv) {
							return
						}
					}
				case *ssa.BinOp:
					// carrier == nil: nothing to close
					if y, eq, ok := nilTest(x); ok && eq && fieldOfRecv(y) == carrier {
						return
					}
				}
			}
			if bad == "" {
				bad = fmt.Sprintf("%s: a path through %s returns without having closed the carrier (field %s) although the object was not found closed: after a failed goodbye the socket and whatever polls through it stay behind — nobody calls Close a second time", w.Pos(e.Last.Pos()), ssaFuncKey(fn), carrier.Name())
			}
		})
		if !okp {
			r.Undecided(rule, key, w.Pos(fn.Pos()), "path budget exceeded")
			continue
		}
		r.Check(bad == "", rule, key, w.Pos(fn.Pos()), fmt.Sprintf("%d returning path(s), each closes the carrier %s or found the object closed", npaths, carrier.Name()), bad)
	}
	if n == 0 {
		r.Undecided(rule, "close:none", "-", "no Close method that closes a carrier field found under internal/streams")
	}
}

// wakesAsClosed: the wake-up at `at` is the queue's "closed" signal — a constant true is stored into a boolean
// field F of the receiver in a block that dominates the wake-up, and every function that registers a waiter on the
// same list reads F (itself or in a helper it calls) — so a woken waiter can tell "closed" from "my condition
// holds".
func wakesAsClosed(fns []*ssa.Function, fn *ssa.Function, at ssa.Instruction, lists []calledList) bool {
	if len(fn.Params) == 0 {
		return false
	}
	recv := ssa.Value(fn.Params[0])
	var flag *types.Var
	allInstrs(fn, func(in ssa.Instruction) {
		st, ok := in.(*ssa.Store)
		if !ok || !st.Block().Dominates(at.Block()) {
			return
		}
		fa, ok := st.Addr.(*ssa.FieldAddr)
		if !ok || fa.X != recv {
			return
		}
		if b, isB := constBool(st.Val); !isB || !b {
			return
		}
		flag = fieldVarOf(fa)
	})
	if flag == nil {
		return false
	}
	listed := map[*types.Var]bool{}
	for _, l := range lists {
		listed[l.f] = true
	}
	readsFlag := func(g *ssa.Function) bool {
		found := false
		for _, h := range staticCone(g, 1) {
			allInstrs(h, func(in ssa.Instruction) {
				if fa, ok := in.(*ssa.FieldAddr); ok && fieldVarOf(fa) == flag {
					if fa.Referrers() != nil {
						for _, ref := range *fa.Referrers() {
							if u, ok := ref.(*ssa.UnOp); ok && u.Op == token.MUL {
								found = true
							}
						}
					}
				}
			})
		}
		return found
	}
	nreg := 0
	for _, g := range fns {
		// the waiters of THIS queue type (two queue types may keep their lists in one shared state struct)
		if on := ownerNamed(fn); on != nil && ownerNamed(g) != on {
			continue
		}
		registers := false
		allInstrs(g, func(in ssa.Instruction) {
			st, ok := in.(*ssa.Store)
			if !ok {
				return
			}
			fa, ok := st.Addr.(*ssa.FieldAddr)
			if !ok || !listed[fieldVarOf(fa)] {
				return
			}
			if c, ok := st.Val.(*ssa.Call); ok {
				if b, ok := c.Call.Value.(*ssa.Builtin); ok && b.Name() == "append" {
					registers = true
				}
			}
		})
		if registers {
			nreg++
			if readsFlag(g) {
				continue
			}
			// the registration in a helper (`wait := q.addWaiter()`): every caller looks at the flag
			ncall, all := 0, true
			gobj := fnObj(g)
			for _, h := range fns {
				for _, c := range callsIn(h) {
					if gobj != nil && sCallee(c) == gobj {
						ncall++
						if !readsFlag(h) {
							all = false
						}
					}
				}
			}
			if ncall == 0 || !all {
				return false
			}
		}
	}
	return nreg > 0
}

// c14CloseWakesBlockedReaders: R14.11 — the multiplexer's receive loop sits in Read of the DNS connection for the
// whole life of a session, and that Read waits on the connection's in-queue. When the connection is closed nothing
// will ever be appended again: unless the closing path also closes the queue (sets its closed flag and wakes the
// waiters), that goroutine — with the session and its buffers — stays behind for every DNS session that has ended.
// Decided: (a) the queue type has a closing method (stores true into a boolean field of the queue and calls the
// waiter callbacks); (b) every function that marks an owner of such a queue closed — stores true into the boolean
// flag the owner's Read consults, or is the owner's Close and closes its carrier — calls that method on the
// owner's queue on every returning path that does the marking.
func c14CloseWakesBlockedReaders(w *World, r *Report) {
	ruleCloseWakesBlockedReaders(w, r, "R14.11")
}

func ruleCloseWakesBlockedReaders(w *World, r *Report, rule string) {
	utilFns := pkgFuncs(w, "/internal/streams/dns/util")
	// queue types with blocking readers: named types of dns/util with a Read([]byte) method and a waiter list
	type queueInfo struct {
		n       *types.Named
		closers map[*types.Func]bool
	}
	var queues []*queueInfo
	up := w.Pkg("internal/streams/dns/util")
	if up == nil {
		r.Undecided(rule, "anchor", "-", "anchor unresolved: package dns/util")
		return
	}
	for _, nm := range up.Types.Scope().Names() {
		tn, ok := up.Types.Scope().Lookup(nm).(*types.TypeName)
		if !ok {
			continue
		}
		n, ok := tn.Type().(*types.Named)
		if !ok {
			continue
		}
		st, ok := n.Underlying().(*types.Struct)
		if !ok || declaredMethod(n, "Read") == nil {
			continue
		}
		hasList := false
		var scan func(st *types.Struct, d int)
		scan = func(st *types.Struct, d int) {
			for i := 0; i < st.NumFields(); i++ {
				if sl, ok := st.Field(i).Type().Underlying().(*types.Slice); ok {
					if sig, ok := sl.Elem().Underlying().(*types.Signature); ok && sig.Params().Len() == 0 {
						hasList = true
					}
				}
				// the waiters may be kept in a small state struct of their own
				if inner, ok := st.Field(i).Type().Underlying().(*types.Struct); ok && d < 1 {
					if fn, isNamed := st.Field(i).Type().(*types.Named); isNamed && fn.Obj().Pkg() == up.Types {
						scan(inner, d+1)
					}
				}
			}
		}
		scan(st, 0)
		if !hasList {
			continue
		}
		qi := &queueInfo{n: n, closers: map[*types.Func]bool{}}
		for i := 0; i < n.NumMethods(); i++ {
			m := n.Method(i)
			fn := w.SSAFunc(m)
			if fn == nil || len(fn.Params) == 0 {
				continue
			}
			setsFlag, fires := false, false
			allInstrs(fn, func(in ssa.Instruction) {
				if stI, ok := in.(*ssa.Store); ok {
					if fa, ok := stI.Addr.(*ssa.FieldAddr); ok && fa.X == ssa.Value(fn.Params[0]) {
						if b, isB := constBool(stI.Val); isB && b {
							setsFlag = true
						}
					}
				}
				if c, ok := in.(ssa.CallInstruction); ok && !c.Common().IsInvoke() && c.Common().StaticCallee() == nil {
					if len(calledListFields(w, utilFns, fn, c)) > 0 {
						fires = true
					}
				}
				// ... or through a helper of the package that fires a waiter list (`q.state.release()`)
				if c, ok := in.(ssa.CallInstruction); ok {
					if h := c.Common().StaticCallee(); h != nil && h != fn && h.Pkg == fn.Pkg {
						for _, c2 := range callsIn(h) {
							if !c2.Common().IsInvoke() && c2.Common().StaticCallee() == nil && len(calledListFields(w, utilFns, h, c2)) > 0 {
								fires = true
							}
						}
					}
				}
			})
			if setsFlag && fires {
				qi.closers[m] = true
			}
		}
		queues = append(queues, qi)
	}
	if len(queues) == 0 {
		r.Undecided(rule, "anchor", "-", "no queue type with a blocking Read found in dns/util")
		return
	}
	isQueueType := func(t types.Type) *queueInfo {
		if p, ok := t.(*types.Pointer); ok {
			t = p.Elem()
		}
		for _, qi := range queues {
			if t == types.Type(qi.n) {
				return qi
			}
		}
		return nil
	}
	// owners: struct types of the DNS packages with a field of a queue type and a Read method
	dnsFns := pkgFuncs(w, "/internal/streams/dns")
	nown := 0
	dp := w.Pkg("internal/streams/dns")
	if dp == nil {
		r.Undecided(rule, "anchor", "-", "anchor unresolved: package streams/dns")
		return
	}
	for _, nm := range dp.Types.Scope().Names() {
		tn, ok := dp.Types.Scope().Lookup(nm).(*types.TypeName)
		if !ok {
			continue
		}
		o, ok := tn.Type().(*types.Named)
		if !ok {
			continue
		}
		st, ok := o.Underlying().(*types.Struct)
		if !ok || declaredMethod(o, "Read") == nil {
			continue
		}
		for i := 0; i < st.NumFields(); i++ {
			qf := st.Field(i)
			qi := isQueueType(qf.Type())
			if qi == nil {
				continue
			}
			nown++
			key := "field:" + qualName(o) + "." + qf.Name() + "|closed-with-its-connection"
			if len(qi.closers) == 0 {
				r.Check(false, rule, key, w.Pos(qf.Pos()), "", fmt.Sprintf("%s has no method that marks the queue closed and wakes its waiters: a Read blocked on it when the connection is closed (the multiplexer's receive loop) is never released — one goroutine and one session stay behind per ended DNS session", qualName(qi.n)))
				continue
			}
			isQueueClose := func(in ssa.Instruction) bool {
				c, ok := in.(ssa.CallInstruction)
				if !ok {
					return false
				}
				f := sCallee(c)
				if f == nil || !qi.closers[f] || len(c.Common().Args) == 0 {
					return false
				}
				for _, root := range provenance(c.Common().Args[0], provOpts{}) {
					if fa := asFieldAddr(root); fa != nil && fieldVarOf(fa) == qf {
						return true
					}
					if u, ok := root.(*ssa.UnOp); ok {
						if fa, ok := u.X.(*ssa.FieldAddr); ok && fieldVarOf(fa) == qf {
							return true
						}
					}
				}
				if fa, ok := c.Common().Args[0].(*ssa.FieldAddr); ok && fieldVarOf(fa) == qf {
					return true
				}
				return false
			}
			// the flag(s) the owner's Read consults to report end-of-stream
			readFlags := map[*types.Var]bool{}
			if rd := w.SSAFunc(declaredMethod(o, "Read")); rd != nil {
				for _, h := range staticCone(rd, 1) {
					allInstrs(h, func(in ssa.Instruction) {
						if fa, ok := in.(*ssa.FieldAddr); ok && structNamedOf(fa.X.Type()) == o {
							if bt, ok := fieldVarOf(fa).Type().Underlying().(*types.Basic); ok && bt.Kind() == types.Bool {
								readFlags[fieldVarOf(fa)] = true
							}
						}
					})
				}
			}
			// the markings: stores of true into such a flag, and the owner's Close if it closes a carrier
			isMark := func(in ssa.Instruction) bool {
				if stI, ok := in.(*ssa.Store); ok {
					if fa, ok := stI.Addr.(*ssa.FieldAddr); ok {
						if sn := structNamedOf(fa.X.Type()); sn == o {
							if b, isB := constBool(stI.Val); isB && b {
								if readFlags[fieldVarOf(fa)] {
									return true
								}
							}
						}
					}
				}
				return false
			}
			isCarrierClose := func(g *ssa.Function) func(in ssa.Instruction) bool {
				return func(in ssa.Instruction) bool {
					c, ok := in.(ssa.CallInstruction)
					if !ok || len(g.Params) == 0 {
						return false
					}
					cc := c.Common()
					if !cc.IsInvoke() || cc.Method.Name() != "Close" {
						return false
					}
					for _, root := range provenance(cc.Value, provOpts{}) {
						if u, ok := root.(*ssa.UnOp); ok {
							if fa, ok := u.X.(*ssa.FieldAddr); ok && fa.X == ssa.Value(g.Params[0]) {
								return true
							}
						}
					}
					return false
				}
			}
			nmark := 0
			var bad []string
			// a helper method of the same object, called on the same receiver: does it mark (close the carrier) /
			// close the queue on every returning path?
			helperDoes := func(g *ssa.Function, in ssa.Instruction, what func(h *ssa.Function) func(ssa.Instruction) bool) bool {
				c, ok := in.(ssa.CallInstruction)
				if !ok || len(g.Params) == 0 {
					return false
				}
				h := c.Common().StaticCallee()
				if h == nil || h == g || ownerNamed(h) != o || len(h.Params) == 0 || len(h.Blocks) == 0 || len(c.Common().Args) == 0 || c.Common().Args[0] != ssa.Value(g.Params[0]) {
					return false
				}
				isEv := what(h)
				all, any := true, false
				okp := enumPaths(h, nil, isEv, nil, func(e pathExit) {
					if _, isRet := e.Last.(*ssa.Return); !isRet {
						return
					}
					any = true
					if len(e.State.Events) == 0 {
						all = false
					}
				})
				return okp && all && any
			}
			for _, g := range dnsFns {
				var markEv func(in ssa.Instruction) bool
				qEv := func(in ssa.Instruction) bool {
					return isQueueClose(in) || helperDoes(g, in, func(h *ssa.Function) func(ssa.Instruction) bool { return isQueueClose })
				}
				if ownerNamed(g) == o && g.Name() == "Close" && g.Parent() == nil {
					cc := isCarrierClose(g)
					markEv = func(in ssa.Instruction) bool {
						return cc(in) || isMark(in) || helperDoes(g, in, func(h *ssa.Function) func(ssa.Instruction) bool { return isCarrierClose(h) })
					}
				} else {
					markEv = isMark
				}
				has := false
				allInstrs(g, func(in ssa.Instruction) {
					if markEv(in) {
						has = true
					}
				})
				if !has {
					continue
				}
				// a helper that is itself judged as part of the owner's Close is not a marking function of its own
				if g.Name() != "Close" && ownerNamed(g) == o {
					onlyCarrier := true
					allInstrs(g, func(in ssa.Instruction) {
						if isMark(in) {
							onlyCarrier = false
						}
					})
					if onlyCarrier {
						continue
					}
				}
				nmark++
				var badHere []string
				judge := func(g2 *ssa.Function, isM, isQ func(ssa.Instruction) bool) []string {
					var out []string
					okp := enumPaths(g2, nil, func(in ssa.Instruction) bool { return isM(in) || isQ(in) }, nil, func(e pathExit) {
						if _, isRet := e.Last.(*ssa.Return); !isRet {
							return
						}
						marked, closedQ := false, false
						for _, ev := range e.State.Events {
							if isQ(ev) {
								closedQ = true
							}
							if isM(ev) {
								marked = true
							}
						}
						if marked && !closedQ {
							out = append(out, fmt.Sprintf("%s: a path through %s closes the connection without closing its in-queue (%s): a Read blocked on the queue — the multiplexer's receive loop — is never released, one goroutine and one session stay behind per ended DNS session", w.Pos(e.Last.Pos()), ssaFuncKey(g2), qf.Name()))
						}
					})
					if !okp {
						out = append(out, fmt.Sprintf("%s: path budget exceeded", ssaFuncKey(g2)))
					}
					return out
				}
				badHere = judge(g, markEv, qEv)
				if len(badHere) > 0 && g.Name() != "Close" {
					// a setter (`u.markClosed()`): the queue may be closed by every caller, next to the call
					gobj := fnObj(g)
					ncall, all := 0, true
					for _, h := range dnsFns {
						if h == g {
							continue
						}
						callsG := func(in ssa.Instruction) bool {
							c, ok := in.(ssa.CallInstruction)
							return ok && gobj != nil && sCallee(c) == gobj
						}
						has := false
						allInstrs(h, func(in ssa.Instruction) {
							if callsG(in) {
								has = true
							}
						})
						if !has {
							continue
						}
						ncall++
						hq := func(in ssa.Instruction) bool {
							return isQueueClose(in) || helperDoes(h, in, func(h2 *ssa.Function) func(ssa.Instruction) bool { return isQueueClose })
						}
						if len(judge(h, callsG, hq)) > 0 {
							all = false
						}
					}
					if ncall > 0 && all {
						badHere = nil
					}
				}
				bad = append(bad, badHere...)
			}
			bad = uniqStrings(bad)
			sort.Strings(bad)
			if len(bad) > 3 {
				bad = bad[:3]
			}
			r.Check(len(bad) == 0 && nmark > 0, rule, key, w.Pos(qf.Pos()), fmt.Sprintf("%d function(s) mark a %s closed; each closes the in-queue on the same path", nmark, o.Obj().Name()), strings.Join(bad, "; ")+mapStr(nmark == 0, "no function that marks the connection closed was found"))
		}
	}
	if nown == 0 {
		r.Undecided(rule, "anchor", "-", "no connection type that owns a blocking in-queue found in streams/dns")
	}
}

// structNamedOf: the named struct type behind a (pointer to a) value.
func structNamedOf(t types.Type) *types.Named {
	if p, ok := t.Underlying().(*types.Pointer); ok {
		t = p.Elem()
	}
	n, _ := t.(*types.Named)
	return n
}

var sortedModuleFuncsMemo = map[*ssa.Program][]*ssa.Function{}

// sortedModuleFuncs: allModuleFuncs in source order — verdict messages must not depend on map iteration order
// (several rules keep the last problem they meet).
func sortedModuleFuncs(w *World, prog *ssa.Program) []*ssa.Function {
	if v, ok := sortedModuleFuncsMemo[prog]; ok {
		return v
	}
	v := sortedFuncs(allModuleFuncs(w, prog))
	sortedModuleFuncsMemo[prog] = v
	return v
}
