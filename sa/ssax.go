package main

// ssax.go — shared analyses over go/ssa (DESIGN.md §3: A1 path facts,
// A2 dominance / must-pass-through, A3 provenance).

import (
	"go/constant"
	"go/token"
	"go/types"

	"golang.org/x/tools/go/ssa"
)

// sCallee returns the resolved callee object of a call instruction: the
// static callee's object, or the interface method for invoke-mode calls.
func sCallee(c ssa.CallInstruction) *types.Func {
	cc := c.Common()
	if cc.IsInvoke() {
		return cc.Method
	}
	if f := cc.StaticCallee(); f != nil {
		if o, ok := f.Object().(*types.Func); ok {
			return o.Origin()
		}
		// instantiated generic or wrapper
		if f.Origin() != nil {
			if o, ok := f.Origin().Object().(*types.Func); ok {
				return o
			}
		}
	}
	return nil
}

// sCalleeFn returns the static SSA callee (including closures), nil otherwise.
func sCalleeFn(c ssa.CallInstruction) *ssa.Function {
	return c.Common().StaticCallee()
}

// allInstrs visits each instruction of fn (not of nested closures).
func allInstrs(fn *ssa.Function, f func(ssa.Instruction)) {
	for _, b := range fn.Blocks {
		for _, in := range b.Instrs {
			f(in)
		}
	}
}

// withAnon visits fn and all anonymous functions nested in it.
func withAnon(fn *ssa.Function, f func(*ssa.Function)) {
	if fn == nil {
		return
	}
	f(fn)
	for _, a := range fn.AnonFuncs {
		withAnon(a, f)
	}
}

func callsIn(fn *ssa.Function) []ssa.CallInstruction {
	var out []ssa.CallInstruction
	allInstrs(fn, func(in ssa.Instruction) {
		if c, ok := in.(ssa.CallInstruction); ok {
			out = append(out, c)
		}
	})
	return out
}

func instrIndex(in ssa.Instruction) int {
	for i, x := range in.Block().Instrs {
		if x == in {
			return i
		}
	}
	return -1
}

// instrDominates: a executes before b on every path reaching b.
func instrDominates(a, b ssa.Instruction) bool {
	if a.Block() == b.Block() {
		return instrIndex(a) < instrIndex(b)
	}
	return a.Block().Dominates(b.Block())
}

// stripNot peels `!x` wrappers, returning the core value and whether the
// polarity is inverted.
func stripNot(v ssa.Value) (ssa.Value, bool) {
	neg := false
	for {
		u, ok := v.(*ssa.UnOp)
		if !ok || u.Op != token.NOT {
			return v, neg
		}
		v = u.X
		neg = !neg
	}
}

// edgeDominates reports whether the CFG edge (from -> from.Succs[succIdx])
// dominates block b: every path to b takes that edge.
func edgeDominates(from *ssa.BasicBlock, succIdx int, b *ssa.BasicBlock) bool {
	s := from.Succs[succIdx]
	if !s.Dominates(b) {
		return false
	}
	// all other predecessors of s must be dominated by s (back edges)
	for _, p := range s.Preds {
		if p == from {
			continue
		}
		if !s.Dominates(p) {
			return false
		}
	}
	// and the two successors must differ
	if len(from.Succs) == 2 && from.Succs[0] == from.Succs[1] {
		return false
	}
	return true
}

// condEdges returns, for a boolean SSA value c, the list of CFG edges on
// which c is known to have value `want` (If instructions branching on c or on
// !c).
type cfgEdge struct {
	From *ssa.BasicBlock
	Succ int
}

func edgesWhere(fn *ssa.Function, isCond func(v ssa.Value) bool, want bool) []cfgEdge {
	var out []cfgEdge
	for _, b := range fn.Blocks {
		if len(b.Instrs) == 0 {
			continue
		}
		ifi, ok := b.Instrs[len(b.Instrs)-1].(*ssa.If)
		if !ok {
			continue
		}
		core, neg := stripNot(ifi.Cond)
		if !isCond(core) {
			continue
		}
		// Succs[0] is the true edge of ifi.Cond
		val0 := !neg // value of core on Succs[0]
		if val0 == want {
			out = append(out, cfgEdge{b, 0})
		} else {
			out = append(out, cfgEdge{b, 1})
		}
	}
	return out
}

// dominatedByCond: instruction in executes only when some value satisfying
// isCond has truth value `want`.
func dominatedByCond(fn *ssa.Function, in ssa.Instruction, isCond func(v ssa.Value) bool, want bool) bool {
	for _, e := range edgesWhere(fn, isCond, want) {
		if edgeDominates(e.From, e.Succ, in.Block()) {
			return true
		}
	}
	return false
}

// ---------------------------------------------------------------- A1 paths

type pathState struct {
	Facts  map[ssa.Value]bool      // boolean values decided by the If edges taken
	PhiSel map[*ssa.Phi]ssa.Value  // phi operand selected by the edge taken
	Events []ssa.Instruction       // matched events, in path order
	Blocks []*ssa.BasicBlock
}

func (p *pathState) clone() *pathState {
	q := &pathState{Facts: make(map[ssa.Value]bool, len(p.Facts)+2), PhiSel: make(map[*ssa.Phi]ssa.Value, len(p.PhiSel)+2)}
	for k, v := range p.Facts {
		q.Facts[k] = v
	}
	for k, v := range p.PhiSel {
		q.PhiSel[k] = v
	}
	q.Events = append([]ssa.Instruction(nil), p.Events...)
	q.Blocks = append([]*ssa.BasicBlock(nil), p.Blocks...)
	return q
}

// Resolve follows phi selections made on this path.
func (p *pathState) Resolve(v ssa.Value) ssa.Value {
	for i := 0; i < 16; i++ {
		ph, ok := v.(*ssa.Phi)
		if !ok {
			return v
		}
		s, ok := p.PhiSel[ph]
		if !ok {
			return v
		}
		v = s
	}
	return v
}

// Truth returns the truth value of a boolean SSA value known on this path.
func (p *pathState) Truth(v ssa.Value) (val bool, known bool) {
	v = p.Resolve(v)
	core, neg := stripNot(v)
	core = p.Resolve(core)
	if c, ok := core.(*ssa.Const); ok && c.Value != nil && c.Value.Kind() == constant.Bool {
		return constant.BoolVal(c.Value) != neg, true
	}
	if t, ok := p.Facts[core]; ok {
		return t != neg, true
	}
	return false, false
}

type pathExit struct {
	State *pathState
	Last  ssa.Instruction // *ssa.Return or *ssa.Panic (or nil when truncated at a stop instruction)
	Stop  ssa.Instruction
}

const pathBudget = 200000

// enumPaths enumerates CFG paths of fn from instruction `start` (nil = entry)
// to every Return/Panic. isEvent selects instructions recorded in order.
// isStop (optional) ends a path early at an instruction. Each block is visited
// at most twice per path. Returns false when the budget is exceeded.
func enumPaths(fn *ssa.Function, start ssa.Instruction, isEvent func(ssa.Instruction) bool, isStop func(ssa.Instruction) bool, atExit func(pathExit)) bool {
	return enumPathsX(fn, start, isEvent, isStop, nil, atExit)
}

// enumPathsX additionally takes evalCond: an optional evaluator that can
// decide a branch condition from the path state (e.g. a load of a field of a
// freshly built literal selected by a phi) so that infeasible edges are pruned.
func enumPathsX(fn *ssa.Function, start ssa.Instruction, isEvent func(ssa.Instruction) bool, isStop func(ssa.Instruction) bool,
	evalCond func(st *pathState, cond ssa.Value) (val bool, known bool), atExit func(pathExit)) bool {
	if len(fn.Blocks) == 0 {
		return true
	}
	budget := pathBudget
	ok := true
	var walk func(b *ssa.BasicBlock, from int, st *pathState, visits map[*ssa.BasicBlock]int)
	walk = func(b *ssa.BasicBlock, from int, st *pathState, visits map[*ssa.BasicBlock]int) {
		if !ok {
			return
		}
		for i := from; i < len(b.Instrs); i++ {
			in := b.Instrs[i]
			if isEvent != nil && isEvent(in) {
				st.Events = append(st.Events, in)
			}
			if isStop != nil && isStop(in) {
				// (the stop sees the facts as they are on arrival, before this instruction executes again)
				budget--
				if budget < 0 {
					ok = false
					return
				}
				atExit(pathExit{State: st, Stop: in})
				return
			}
			if visits[b] >= 2 {
				// second dynamic instance of this instruction: facts about the
				// previous instance of its value (and of values computed from it) are stale
				if v, ok := in.(ssa.Value); ok {
					if _, isPhi := in.(*ssa.Phi); !isPhi {
						forget(st, v)
					}
				}
			}
			switch t := in.(type) {
			case *ssa.Return, *ssa.Panic:
				budget--
				if budget < 0 {
					ok = false
					return
				}
				atExit(pathExit{State: st, Last: in})
				return
			case *ssa.If:
				core, neg := stripNot(t.Cond)
				core = st.Resolve(core)
				for si, succ := range b.Succs {
					valCore := (si == 0) != neg
					if c, isC := core.(*ssa.Const); isC && c.Value != nil && c.Value.Kind() == constant.Bool {
						if constant.BoolVal(c.Value) != valCore {
							continue
						}
					}
					if known, has := st.Facts[core]; has && known != valCore {
						continue // contradictory valuation of the same SSA value
					}
					if evalCond != nil {
						if v, known := evalCond(st, core); known && v != valCore {
							continue
						}
					}
					ns := st.clone()
					ns.Facts[core] = valCore
					addAccessorFacts(ns, core, valCore, 0)
					enter(succ, b, ns, visits, walk)
				}
				return
			case *ssa.Jump:
				enter(b.Succs[0], b, st, visits, walk)
				return
			}
		}
	}
	st := &pathState{Facts: map[ssa.Value]bool{}, PhiSel: map[*ssa.Phi]ssa.Value{}}
	visits := map[*ssa.BasicBlock]int{}
	if start == nil {
		visits[fn.Blocks[0]] = 1
		st.Blocks = append(st.Blocks, fn.Blocks[0])
		walk(fn.Blocks[0], 0, st, visits)
	} else {
		visits[start.Block()] = 1
		st.Blocks = append(st.Blocks, start.Block())
		walk(start.Block(), instrIndex(start)+1, st, visits)
	}
	return ok
}

func forget(st *pathState, v ssa.Value) {
	delete(st.Facts, v)
	for k := range st.Facts {
		if in, ok := k.(ssa.Instruction); ok {
			for _, op := range in.Operands(nil) {
				if *op == v {
					delete(st.Facts, k)
					break
				}
			}
		}
	}
}

func enter(succ, pred *ssa.BasicBlock, st *pathState, visits map[*ssa.BasicBlock]int,
	walk func(b *ssa.BasicBlock, from int, st *pathState, visits map[*ssa.BasicBlock]int)) {
	if visits[succ] >= 2 {
		return
	}
	nv := make(map[*ssa.BasicBlock]int, len(visits)+1)
	for k, v := range visits {
		nv[k] = v
	}
	nv[succ]++
	// select phi operands
	pi := -1
	for i, p := range succ.Preds {
		if p == pred {
			pi = i
			break
		}
	}
	if len(st.Blocks) > 0 {
		st = st.clone()
	}
	for _, in := range succ.Instrs {
		ph, ok := in.(*ssa.Phi)
		if !ok {
			break
		}
		if pi >= 0 && pi < len(ph.Edges) {
			st.PhiSel[ph] = st.Resolve(ph.Edges[pi])
			delete(st.Facts, ph)
		}
	}
	st.Blocks = append(st.Blocks, succ)
	walk(succ, 0, st, nv)
}

// ---------------------------------------------------------------- A2 reach

// canReach reports whether, starting right after `from` (nil = function
// entry), some instruction satisfying isTarget can be reached along CFG paths
// that do not pass an instruction satisfying isBlocker. Returns the target.
func canReach(fn *ssa.Function, from ssa.Instruction, isBlocker, isTarget func(ssa.Instruction) bool) ssa.Instruction {
	if len(fn.Blocks) == 0 {
		return nil
	}
	type pos struct {
		b *ssa.BasicBlock
		i int
	}
	seen := map[*ssa.BasicBlock]bool{}
	var work []pos
	if from == nil {
		work = append(work, pos{fn.Blocks[0], 0})
		seen[fn.Blocks[0]] = true
	} else {
		work = append(work, pos{from.Block(), instrIndex(from) + 1})
		// note: the start block may be re-entered from its top through a loop
	}
	for len(work) > 0 {
		p := work[len(work)-1]
		work = work[:len(work)-1]
		blocked := false
		for i := p.i; i < len(p.b.Instrs); i++ {
			in := p.b.Instrs[i]
			if isTarget(in) {
				return in
			}
			if isBlocker != nil && isBlocker(in) {
				blocked = true
				break
			}
		}
		if blocked {
			continue
		}
		for _, s := range p.b.Succs {
			if !seen[s] {
				seen[s] = true
				work = append(work, pos{s, 0})
			}
		}
	}
	return nil
}

// ---------------------------------------------------------------- A3 provenance

// provOpts configures the backward value slice.
type provOpts struct {
	// Transparent reports which argument indexes of a call carry the
	// "identity" of the result (wrappers, constructors). Return nil to treat
	// the call as a root.
	Transparent func(c *ssa.Call) []int
	// ThroughFieldLoads: follow loads of struct fields to the unique store of
	// that field address in the same function (if any).
	MaxDepth int
}

// provenance returns the set of root values v may derive from.
func provenance(v ssa.Value, o provOpts) []ssa.Value {
	seen := map[ssa.Value]bool{}
	var roots []ssa.Value
	var walk func(v ssa.Value, d int)
	walk = func(v ssa.Value, d int) {
		if v == nil || seen[v] {
			return
		}
		seen[v] = true
		if o.MaxDepth > 0 && d > o.MaxDepth {
			roots = append(roots, v)
			return
		}
		switch x := v.(type) {
		case *ssa.Phi:
			for _, e := range x.Edges {
				walk(e, d+1)
			}
		case *ssa.MakeInterface:
			walk(x.X, d+1)
		case *ssa.ChangeInterface:
			walk(x.X, d+1)
		case *ssa.ChangeType:
			walk(x.X, d+1)
		case *ssa.Convert:
			walk(x.X, d+1)
		case *ssa.TypeAssert:
			walk(x.X, d+1)
		case *ssa.Extract:
			// result k of a multi-value call
			if c, ok := x.Tuple.(*ssa.Call); ok && o.Transparent != nil {
				if idx := o.Transparent(c); idx != nil && x.Index == 0 {
					for _, i := range idx {
						if i < len(c.Call.Args) {
							walk(c.Call.Args[i], d+1)
						}
					}
					return
				}
			}
			if ta, ok := x.Tuple.(*ssa.TypeAssert); ok && x.Index == 0 {
				walk(ta.X, d+1)
				return
			}
			roots = append(roots, v)
		case *ssa.Call:
			if o.Transparent != nil {
				if idx := o.Transparent(x); idx != nil {
					for _, i := range idx {
						if i < len(x.Call.Args) {
							walk(x.Call.Args[i], d+1)
						}
					}
					return
				}
			}
			roots = append(roots, v)
		case *ssa.UnOp:
			if x.Op == token.MUL {
				// load: look for stores to the same address value in this function
				if stores := storesTo(x.X); len(stores) > 0 {
					for _, s := range stores {
						walk(s.Val, d+1)
					}
					return
				}
			}
			roots = append(roots, v)
		default:
			roots = append(roots, v)
		}
	}
	walk(v, 0)
	return roots
}

// storesTo returns the Store instructions whose address operand is addr (the
// same SSA value — typical for locals that escape to the heap: Alloc).
func storesTo(addr ssa.Value) []*ssa.Store {
	var out []*ssa.Store
	refs := addr.Referrers()
	if refs == nil {
		return nil
	}
	for _, r := range *refs {
		if s, ok := r.(*ssa.Store); ok && s.Addr == addr {
			out = append(out, s)
		}
	}
	return out
}

// fieldAddrOf: if v is a FieldAddr (or load of one) selecting field fld,
// return the FieldAddr.
func asFieldAddr(v ssa.Value) *ssa.FieldAddr {
	switch x := v.(type) {
	case *ssa.FieldAddr:
		return x
	case *ssa.UnOp:
		if x.Op == token.MUL {
			if fa, ok := x.X.(*ssa.FieldAddr); ok {
				return fa
			}
		}
	}
	return nil
}

// fieldVarOf returns the struct field object addressed by a FieldAddr.
func fieldVarOf(fa *ssa.FieldAddr) *types.Var {
	t := fa.X.Type()
	if p, ok := t.Underlying().(*types.Pointer); ok {
		t = p.Elem()
	}
	st, ok := t.Underlying().(*types.Struct)
	if !ok {
		return nil
	}
	return st.Field(fa.Field)
}

func fieldVarOfField(f *ssa.Field) *types.Var {
	st, ok := f.X.Type().Underlying().(*types.Struct)
	if !ok {
		return nil
	}
	return st.Field(f.Field)
}

// isLoadOfField: v is a load (through FieldAddr or Field) of struct field fld.
func isLoadOfField(v ssa.Value, fld *types.Var) bool {
	switch x := v.(type) {
	case *ssa.UnOp:
		if x.Op == token.MUL {
			if fa, ok := x.X.(*ssa.FieldAddr); ok {
				return fieldVarOf(fa) == fld
			}
		}
	case *ssa.Field:
		return fieldVarOfField(x) == fld
	}
	return false
}

// isConstNil reports whether v is a nil constant.
func isConstNil(v ssa.Value) bool {
	c, ok := v.(*ssa.Const)
	return ok && c.IsNil()
}

func constBool(v ssa.Value) (bool, bool) {
	c, ok := v.(*ssa.Const)
	if !ok || c.Value == nil || c.Value.Kind() != constant.Bool {
		return false, false
	}
	return constant.BoolVal(c.Value), true
}

func constIntVal(v ssa.Value) (int64, bool) {
	c, ok := v.(*ssa.Const)
	if !ok || c.Value == nil {
		return 0, false
	}
	iv := constant.ToInt(c.Value)
	if iv.Kind() != constant.Int {
		return 0, false
	}
	return constant.Int64Val(iv)
}

// errNilTest: if v is `x == nil` / `x != nil` for error-typed x, return x and
// whether the comparison is "== nil".
func nilTest(v ssa.Value) (x ssa.Value, eqNil bool, ok bool) {
	b, isB := v.(*ssa.BinOp)
	if !isB || (b.Op != token.EQL && b.Op != token.NEQ) {
		return nil, false, false
	}
	if isConstNil(b.Y) {
		return b.X, b.Op == token.EQL, true
	}
	if isConstNil(b.X) {
		return b.Y, b.Op == token.EQL, true
	}
	return nil, false, false
}

// errIsNilOnPath evaluates whether value x (typically an error result) is
// known nil / non-nil on the path: searches the path facts for a nil test on x.
func (p *pathState) NilKnown(x ssa.Value) (isNil bool, known bool) {
	x = p.Resolve(x)
	if isConstNil(x) {
		return true, true
	}
	for v, t := range p.Facts {
		if y, eq, ok := nilTest(v); ok && p.Resolve(y) == x {
			return t == eq, true
		}
	}
	return false, false
}

// freeVarStores returns the values the enclosing function stores into the
// variable captured as free variable fv.
func freeVarStores(fv *ssa.FreeVar) []ssa.Value {
	fn := fv.Parent()
	parent := fn.Parent()
	if parent == nil {
		return nil
	}
	idx := -1
	for i, f := range fn.FreeVars {
		if f == fv {
			idx = i
		}
	}
	var out []ssa.Value
	allInstrs(parent, func(in ssa.Instruction) {
		mc, ok := in.(*ssa.MakeClosure)
		if !ok || mc.Fn != fn || idx < 0 || idx >= len(mc.Bindings) {
			return
		}
		b := mc.Bindings[idx]
		for _, st := range storesTo(b) {
			out = append(out, st.Val)
		}
	})
	return out
}

// constFieldOfLiteral: ptr (after resolving path phis) is a freshly allocated
// struct literal; returns the constant stored into its field named `field` by
// the literal's initialisation (unique constant store), if any.
func constFieldOfLiteral(st *pathState, ptr ssa.Value, field string) (constant.Value, bool) {
	ptr = st.Resolve(ptr)
	if call, ok := ptr.(*ssa.Call); ok {
		// a literal built by a module helper: `statusResponse(code, reason)` returning &T{Field: code}
		if v, ok := builderFieldValue(call, field, 0); ok {
			if c, ok := v.(*ssa.Const); ok && c.Value != nil {
				return c.Value, true
			}
		}
		return nil, false
	}
	al, ok := ptr.(*ssa.Alloc)
	if !ok || al.Referrers() == nil {
		return nil, false
	}
	var val constant.Value
	n := 0
	for _, ref := range *al.Referrers() {
		fa, ok := ref.(*ssa.FieldAddr)
		if !ok {
			continue
		}
		fv := fieldVarOf(fa)
		if fv == nil || fv.Name() != field {
			continue
		}
		for _, s := range storesTo(fa) {
			n++
			if c, ok := s.Val.(*ssa.Const); ok && c.Value != nil {
				val = c.Value
			} else {
				return nil, false
			}
		}
	}
	if n == 1 && val != nil {
		return val, true
	}
	return nil, false
}

// sameFieldLoadCond: evalCond helper that correlates repeated tests of the
// same struct field (two loads of base.F compared with nil or a constant are
// the same decision as long as the function does not store to that field).
// Returns the truth already established on the path for an equivalent
// condition.
func sameFieldLoadCond(st *pathState, cond ssa.Value) (bool, bool) {
	key := func(v ssa.Value) (string, bool) {
		b, ok := v.(*ssa.BinOp)
		if !ok {
			return "", false
		}
		side := func(x ssa.Value) (string, bool) {
			if c, ok := x.(*ssa.Const); ok {
				return "const:" + c.String(), true
			}
			if u, ok := x.(*ssa.UnOp); ok && u.Op == token.MUL {
				if fa, ok := u.X.(*ssa.FieldAddr); ok {
					return "load:" + fa.X.Name() + "." + fieldVarOf(fa).Name(), true
				}
				// deref of a loaded pointer field
				if u2, ok := u.X.(*ssa.UnOp); ok && u2.Op == token.MUL {
					if fa, ok := u2.X.(*ssa.FieldAddr); ok {
						return "deref:" + fa.X.Name() + "." + fieldVarOf(fa).Name(), true
					}
				}
			}
			return "", false
		}
		l, ok1 := side(b.X)
		r, ok2 := side(b.Y)
		if !ok1 || !ok2 {
			return "", false
		}
		return b.Op.String() + "|" + l + "|" + r, true
	}
	k, ok := key(cond)
	if !ok {
		return false, false
	}
	found, truth := false, false
	for v, t := range st.Facts {
		if v == cond {
			continue
		}
		if k2, ok := key(v); ok && k2 == k {
			if found && t != truth {
				return false, false // contradictory tests of the same field on one path: decide nothing
			}
			found, truth = true, t
		}
	}
	return truth, found
}

// provInter: provenance that looks through module helpers: a root that is the
// (i-th) result of a static call into the module is replaced by the origins
// of what the callee returns there; callee parameters map back to the call's
// arguments. Depth-bounded; constant nil results are skipped.
func provInter(v ssa.Value, depth int) []ssa.Value {
	var out []ssa.Value
	for _, root := range provenance(v, provOpts{}) {
		var call *ssa.Call
		idx := 0
		switch x := root.(type) {
		case *ssa.Extract:
			if c, ok := x.Tuple.(*ssa.Call); ok {
				call, idx = c, x.Index
			}
		case *ssa.Call:
			call = x
		}
		if call == nil || depth > 3 {
			out = append(out, root)
			continue
		}
		callee := call.Call.StaticCallee()
		if callee == nil || !inModule(callee) || len(callee.Blocks) == 0 {
			out = append(out, root)
			continue
		}
		n := 0
		for _, b := range callee.Blocks {
			ret, ok := b.Instrs[len(b.Instrs)-1].(*ssa.Return)
			if !ok || idx >= len(ret.Results) || isConstNil(ret.Results[idx]) {
				continue
			}
			for _, r2 := range provInter(ret.Results[idx], depth+1) {
				if p, ok := r2.(*ssa.Parameter); ok {
					mapped := false
					for i, cp := range callee.Params {
						if cp == p && i < len(call.Call.Args) {
							out = append(out, provInter(call.Call.Args[i], depth+1)...)
							mapped = true
						}
					}
					if mapped {
						n++
						continue
					}
				}
				out = append(out, r2)
				n++
			}
		}
		if n == 0 {
			out = append(out, root)
		}
	}
	return out
}

// addAccessorFacts: a branch on a call to a pure one-block predicate accessor of the module
// (`func (x *T) hasFoo() bool { return x.foo != nil }`) also decides the expression the accessor returns.
// The expression's SSA values live in the accessor; rules that recognise facts by field identity
// (isLoadOfField, nilTest on a field load) see them like an inlined condition.
func addAccessorFacts(st *pathState, cond ssa.Value, val bool, depth int) {
	call, ok := cond.(*ssa.Call)
	if !ok || depth > 2 {
		return
	}
	fn := call.Call.StaticCallee()
	if fn == nil || !inModule(fn) || len(fn.Blocks) != 1 {
		return
	}
	var ret *ssa.Return
	for _, in := range fn.Blocks[0].Instrs {
		switch x := in.(type) {
		case *ssa.FieldAddr, *ssa.Field, *ssa.BinOp, *ssa.IndexAddr, *ssa.DebugRef:
		case *ssa.UnOp:
		case *ssa.Return:
			ret = x
		case *ssa.Call:
			// another pure accessor or len()
			if _, isB := x.Call.Value.(*ssa.Builtin); isB {
				continue
			}
			if sc := x.Call.StaticCallee(); sc != nil && inModule(sc) && len(sc.Blocks) == 1 {
				continue
			}
			return
		default:
			return
		}
	}
	if ret == nil || len(ret.Results) != 1 {
		return
	}
	rv, neg := stripNot(ret.Results[0])
	if bt, ok := rv.Type().Underlying().(*types.Basic); !ok || bt.Kind() != types.Bool {
		return
	}
	v := val != neg
	if _, has := st.Facts[rv]; !has {
		st.Facts[rv] = v
		addAccessorFacts(st, rv, v, depth+1)
	}
}

func isErrorType(t types.Type) bool {
	return types.Identical(t, types.Universe.Lookup("error").Type())
}

// provWithCallers: provenance, replacing a root that is a parameter of a helper by the origins of
// the corresponding argument at every static call site of that helper inside `cone` (the helper's callers).
func provWithCallers(v ssa.Value, cone []*ssa.Function, depth int) []ssa.Value {
	var out []ssa.Value
	for _, root := range provenance(v, provOpts{}) {
		p, ok := root.(*ssa.Parameter)
		if !ok || depth > 2 {
			out = append(out, root)
			continue
		}
		h := p.Parent()
		idx := paramIndex(h, p)
		mapped := false
		for _, g := range cone {
			if g == h {
				continue
			}
			for _, c := range callsIn(g) {
				if c.Common().StaticCallee() == h && idx >= 0 && idx < len(c.Common().Args) {
					mapped = true
					out = append(out, provWithCallers(c.Common().Args[idx], cone, depth+1)...)
				}
			}
		}
		if !mapped {
			out = append(out, root)
		}
	}
	return out
}

// predicateHelperImplies: h is a module function with a single boolean result. Does every path of h that can
// return `truth` satisfy `holds` (given the branch facts of that path, extended by "the returned expression
// is `truth`" when it is not a constant)? False when h has no such path or cannot be enumerated.
func predicateHelperImplies(h *ssa.Function, truth bool, holds func(facts map[ssa.Value]bool) bool) bool {
	if h == nil || len(h.Blocks) == 0 || h.Signature.Results().Len() != 1 {
		return false
	}
	if b, ok := h.Signature.Results().At(0).Type().Underlying().(*types.Basic); !ok || b.Kind() != types.Bool {
		return false
	}
	all, n := true, 0
	okp := enumPaths(h, nil, nil, nil, func(e pathExit) {
		ret, isRet := e.Last.(*ssa.Return)
		if !isRet {
			return
		}
		rv := e.State.Resolve(ret.Results[0])
		facts := e.State.Facts
		if b, isC := constBool(rv); isC {
			if b != truth {
				return
			}
		} else if tv, known := e.State.Truth(rv); known {
			if tv != truth {
				return
			}
		} else {
			facts = map[ssa.Value]bool{rv: truth}
			for k, x := range e.State.Facts {
				facts[k] = x
			}
		}
		n++
		if !holds(facts) {
			all = false
		}
	})
	return okp && all && n > 0
}

// builderFieldValue: call is a static call of a module function whose every return hands out one freshly
// allocated struct (or the result of another such builder); returns the value stored into `field` of that
// struct, expressed in the caller's terms (a constant, or the caller's argument when the builder stores one of
// its parameters). Only fields stored exactly once in the builder are resolved.
func builderFieldValue(call *ssa.Call, field string, depth int) (ssa.Value, bool) {
	h := call.Call.StaticCallee()
	if h == nil || !inModule(h) || len(h.Blocks) == 0 || depth > 2 {
		return nil, false
	}
	var result ssa.Value
	nret := 0
	for _, b := range h.Blocks {
		ret, ok := b.Instrs[len(b.Instrs)-1].(*ssa.Return)
		if !ok {
			continue
		}
		nret++
		if len(ret.Results) != 1 {
			return nil, false
		}
		if result != nil && result != ret.Results[0] {
			return nil, false
		}
		result = ret.Results[0]
	}
	if nret == 0 || result == nil {
		return nil, false
	}
	mapBack := func(v ssa.Value) (ssa.Value, bool) {
		if c, ok := v.(*ssa.Const); ok {
			return c, true
		}
		if i := paramIndex(h, v); i >= 0 && i < len(call.Call.Args) {
			return call.Call.Args[i], true
		}
		return nil, false
	}
	// stores into the field of the returned object inside the builder itself
	var stored ssa.Value
	n := 0
	if refs := result.Referrers(); refs != nil {
		for _, ref := range *refs {
			fa, ok := ref.(*ssa.FieldAddr)
			if !ok {
				continue
			}
			if fv := fieldVarOf(fa); fv == nil || fv.Name() != field {
				continue
			}
			for _, s := range storesTo(fa) {
				n++
				stored = s.Val
			}
		}
	}
	switch x := result.(type) {
	case *ssa.Alloc:
		if n == 1 {
			return mapBack(stored)
		}
	case *ssa.Call:
		if n == 0 {
			if v, ok := builderFieldValue(x, field, depth+1); ok {
				return mapBack(v)
			}
		} else if n == 1 {
			return mapBack(stored)
		}
	}
	return nil, false
}
