package main

// thorough.go — the thorough tier: everything the quick tier decides, plus
// (1) the same rules under other build configurations (GOOS=windows/darwin,
// GOARCH=386) so that runtime.GOOS branches' dependencies and int-width
// dependent constants are covered, and (2) the mutation self-test: every
// registered mutation / seeded change of the property is applied to a scratch
// copy of /repo and the rules must report it. A missed mutation is recorded
// (and printed as a WARNING) but never turns into a verdict about /repo.

import (
	"bufio"
	"encoding/json"
	"fmt"
	"os"
	"os/exec"
	"path/filepath"
	"sort"
	"strings"
	"sync"
)

type mutResult struct {
	Name    string `json:"name"`
	Source  string `json:"source"`
	Status  string `json:"status"` // detected | missed | skipped | nocompile
	Expect  string `json:"expect"`
	Matched string `json:"matched,omitempty"`
}

type crossResult struct {
	Config string `json:"config"`
	Exit   int    `json:"exit"`
	Tail   string `json:"tail"`
}

func selfExe() string {
	if p, err := os.Executable(); err == nil {
		return p
	}
	return os.Args[0]
}

func runThoroughExtras(prop, repo, verif string, r *Report) {
	exe := selfExe()
	// ---- cross-configuration
	var cross []crossResult
	for _, cfg := range [][2]string{{"-goos", "windows"}, {"-goos", "darwin"}, {"-goarch", "386"}} {
		cmd := exec.Command(exe, "-prop", prop, "-tier", "quick", "-repo", repo, "-verif", verif, "-no-evidence", cfg[0], cfg[1])
		out, err := cmd.CombinedOutput()
		code := 0
		if err != nil {
			if ee, ok := err.(*exec.ExitError); ok {
				code = ee.ExitCode()
			} else {
				code = -1
			}
		}
		lines := strings.Split(strings.TrimSpace(string(out)), "\n")
		tail := lines[len(lines)-1]
		cross = append(cross, crossResult{Config: cfg[0][1:] + "=" + cfg[1], Exit: code, Tail: tail})
		if code != 0 {
			// violations under another configuration are violations
			for _, l := range lines {
				if strings.Contains(l, "[violated]") || strings.Contains(l, "[undecided]") {
					r.Violate("crossconfig", cfg[1]+"|"+firstN(l, 160), "-", "under "+cfg[0][1:]+"="+cfg[1]+": "+l)
				}
			}
		}
	}
	r.Extra["crossconfig"] = cross

	// ---- mutation self-test
	type job struct {
		name, source, patch, expect string
	}
	var jobs []job
	mdir := filepath.Join(verif, "mutations", prop)
	if ents, err := os.ReadDir(mdir); err == nil {
		for _, e := range ents {
			if strings.HasSuffix(e.Name(), ".patch") {
				p := filepath.Join(mdir, e.Name())
				jobs = append(jobs, job{name: strings.TrimSuffix(e.Name(), ".patch"), source: "mutations", patch: p, expect: expectOf(p)})
			}
		}
	}
	if ents, err := os.ReadDir(filepath.Join(verif, "seeded")); err == nil {
		for _, e := range ents {
			meta := filepath.Join(verif, "seeded", e.Name(), "meta.json")
			b, err := os.ReadFile(meta)
			if err != nil {
				continue
			}
			var m struct {
				Property string `json:"property"`
				Expect   string `json:"expect_rule"`
				Status   string `json:"status"`
			}
			if json.Unmarshal(b, &m) != nil || m.Property != prop {
				continue
			}
			src := "seeded"
			if m.Status == "out-of-reach" {
				src = "seeded (recorded as out of static reach)"
			}
			jobs = append(jobs, job{name: e.Name(), source: src, patch: filepath.Join(verif, "seeded", e.Name(), "patch.diff"), expect: m.Expect})
		}
	}
	sort.Slice(jobs, func(i, j int) bool { return jobs[i].name < jobs[j].name })
	results := make([]mutResult, len(jobs))
	sem := make(chan struct{}, 8)
	var wg sync.WaitGroup
	for i, j := range jobs {
		wg.Add(1)
		go func(i int, j job) {
			defer wg.Done()
			sem <- struct{}{}
			defer func() { <-sem }()
			results[i] = runMutation(exe, prop, repo, verif, j.name, j.source, j.patch, j.expect)
		}(i, j)
	}
	wg.Wait()
	det, missed := 0, 0
	for i, m := range results {
		switch m.Status {
		case "detected":
			det++
		case "missed":
			if strings.Contains(m.Source, "out of static reach") {
				results[i].Status = "not-detected (out of static reach, see seeded/README.md)"
				continue
			}
			missed++
			fmt.Printf("WARNING property=%s mutation %s (%s) is NOT detected by the rules (expected %s)\n", prop, m.Name, m.Source, m.Expect)
		case "skipped", "nocompile":
			fmt.Printf("WARNING property=%s: mutation patch %s (%s) no longer applies/compiles on the current tree (%s): rebase it\n", prop, m.Name, m.Source, m.Status)
		}
	}
	// ---- false-alarm self-test: behaviour-preserving refactorings must leave the check silent
	var rjobs []string
	if ents, err := os.ReadDir(filepath.Join(verif, "refactors")); err == nil {
		for _, e := range ents {
			if strings.HasSuffix(e.Name(), ".diff") {
				rjobs = append(rjobs, e.Name())
			}
		}
	}
	sort.Strings(rjobs)
	rres := make([]mutResult, len(rjobs))
	for i, name := range rjobs {
		wg.Add(1)
		go func(i int, name string) {
			defer wg.Done()
			sem <- struct{}{}
			defer func() { <-sem }()
			m := runMutation(exe, prop, repo, verif, strings.TrimSuffix(name, ".diff"), "refactor", filepath.Join(verif, "refactors", name), "")
			switch m.Status {
			case "missed":
				m.Status = "silent"
			case "detected":
				m.Status = "FALSE-ALARM"
			}
			rres[i] = m
		}(i, name)
	}
	wg.Wait()
	silent, alarms := 0, 0
	for _, m := range rres {
		switch m.Status {
		case "silent":
			silent++
		case "FALSE-ALARM":
			alarms++
			fmt.Printf("WARNING property=%s raises an alarm on the behaviour-preserving refactoring %s: %s\n", prop, m.Name, m.Matched)
		case "skipped", "nocompile":
			fmt.Printf("WARNING property=%s: refactoring patch %s no longer applies/compiles on the current tree (%s): rebase it\n", prop, m.Name, m.Status)
		}
	}
	r.Extra["refactorings"] = rres
	r.Extra["refactorings_silent"] = silent
	r.Extra["refactorings_false_alarms"] = alarms
	r.Extra["mutations"] = results
	r.Extra["mutations_detected"] = det
	r.Extra["mutations_missed"] = missed
	r.Extra["mutations_total"] = len(results)
}

func firstN(s string, n int) string {
	if len(s) > n {
		return s[:n]
	}
	return s
}

func expectOf(patch string) string {
	f, err := os.Open(patch)
	if err != nil {
		return ""
	}
	defer f.Close()
	sc := bufio.NewScanner(f)
	for sc.Scan() {
		if strings.HasPrefix(sc.Text(), "# expect: ") {
			return strings.TrimSpace(strings.TrimPrefix(sc.Text(), "# expect: "))
		}
		if strings.HasPrefix(sc.Text(), "diff ") {
			break
		}
	}
	return ""
}

func runMutation(exe, prop, repo, verif, name, source, patch, expect string) mutResult {
	res := mutResult{Name: name, Source: source, Expect: expect}
	tmp, err := os.MkdirTemp("", "sacheck-mut-")
	if err != nil {
		res.Status = "skipped"
		return res
	}
	defer os.RemoveAll(tmp)
	cp := exec.Command("rsync", "-a", "--exclude", ".git", repo+"/", tmp+"/")
	if err := cp.Run(); err != nil {
		cp2 := exec.Command("cp", "-a", repo+"/.", tmp+"/")
		if err2 := cp2.Run(); err2 != nil {
			res.Status = "skipped"
			return res
		}
		os.RemoveAll(filepath.Join(tmp, ".git"))
	}
	pf, err := os.Open(patch)
	if err != nil {
		res.Status = "skipped"
		return res
	}
	ap := exec.Command("patch", "-p1", "-s", "--no-backup-if-mismatch")
	ap.Dir = tmp
	ap.Stdin = pf
	if err := ap.Run(); err != nil {
		pf.Close()
		res.Status = "skipped" // the patch no longer applies to the current tree
		return res
	}
	pf.Close()
	cmd := exec.Command(exe, "-prop", prop, "-tier", "quick", "-repo", tmp, "-verif", verif, "-no-evidence")
	out, err := cmd.CombinedOutput()
	code := 0
	if err != nil {
		if ee, ok := err.(*exec.ExitError); ok {
			code = ee.ExitCode()
		}
	}
	text := string(out)
	if strings.Contains(text, "type/load errors") {
		res.Status = "nocompile"
		return res
	}
	if code != 0 {
		for _, l := range strings.Split(text, "\n") {
			if strings.HasPrefix(l, "KNOWN-FINDING") {
				continue
			}
			if (strings.Contains(l, "[violated]") || strings.Contains(l, "[undecided]")) && (expect == "" || strings.Contains(l, expect)) {
				res.Status = "detected"
				res.Matched = firstN(strings.ReplaceAll(l, tmp+"/", ""), 300)
				return res
			}
		}
	}
	res.Status = "missed"
	return res
}
