package main

// world.go — loading /repo's current source into a type-checked program, and
// the lookups every rule uses to resolve its anchors (by role or by resolved
// object, never by text).

import (
	"fmt"
	"go/ast"
	"go/token"
	"go/types"
	"os"
	"sort"
	"strings"

	"golang.org/x/tools/go/callgraph"
	"golang.org/x/tools/go/callgraph/cha"
	"golang.org/x/tools/go/callgraph/vta"
	"golang.org/x/tools/go/packages"
	"golang.org/x/tools/go/ssa"
	"golang.org/x/tools/go/ssa/ssautil"
)

const modPath = "github.com/bokysan/socketace/v2"

type World struct {
	RepoDir string
	Fset    *token.FileSet
	Pkgs    []*packages.Package          // module packages, sorted by path
	ByPath  map[string]*packages.Package // all packages incl. deps
	Env     []string

	prog     *ssa.Program
	ssaPkgs  map[*types.Package]*ssa.Package
	cgCHA    *callgraph.Graph
	cgVTA    *callgraph.Graph
	modFuncs map[*ssa.Function]bool

	declOf map[*types.Func]*ast.FuncDecl
	fileOf map[*ast.FuncDecl]*packages.Package
}

func baseEnv(extra ...string) []string {
	env := []string{}
	for _, e := range os.Environ() {
		if strings.HasPrefix(e, "GOWORK=") || strings.HasPrefix(e, "GOFLAGS=") ||
			strings.HasPrefix(e, "GOPROXY=") || strings.HasPrefix(e, "GOSUMDB=") ||
			strings.HasPrefix(e, "GOTOOLCHAIN=") || strings.HasPrefix(e, "GOOS=") ||
			strings.HasPrefix(e, "GOARCH=") {
			continue
		}
		env = append(env, e)
	}
	env = append(env, "GOWORK=off", "GOFLAGS=-mod=mod", "GOPROXY=off", "GOSUMDB=off", "GOTOOLCHAIN=local", "CGO_ENABLED=0")
	env = append(env, extra...)
	return env
}

// Load parses and type-checks every package of the module (non-test files)
// together with the sources of all dependencies. Any load or type error is
// fatal: the checker never decides on a partially understood program.
func Load(repo string, extraEnv ...string) (*World, error) {
	fset := token.NewFileSet()
	cfg := &packages.Config{
		Mode:  packages.LoadAllSyntax,
		Dir:   repo,
		Fset:  fset,
		Tests: false,
		Env:   baseEnv(extraEnv...),
	}
	pkgs, err := packages.Load(cfg, "./...")
	if err != nil {
		return nil, fmt.Errorf("load failed: %v", err)
	}
	w := &World{RepoDir: repo, Fset: fset, ByPath: map[string]*packages.Package{}, Env: cfg.Env,
		declOf: map[*types.Func]*ast.FuncDecl{}, fileOf: map[*ast.FuncDecl]*packages.Package{}}
	curWorld = w
	var errs []string
	packages.Visit(pkgs, nil, func(p *packages.Package) {
		w.ByPath[p.PkgPath] = p
		if strings.HasPrefix(p.PkgPath, modPath) {
			for _, e := range p.Errors {
				errs = append(errs, e.Error())
			}
			if p.IllTyped {
				errs = append(errs, p.PkgPath+": ill-typed")
			}
		}
	})
	if len(errs) > 0 {
		sort.Strings(errs)
		return nil, fmt.Errorf("type/load errors in module packages: %s", strings.Join(errs, "; "))
	}
	for _, p := range pkgs {
		if strings.HasPrefix(p.PkgPath, modPath) {
			w.Pkgs = append(w.Pkgs, p)
		}
	}
	sort.Slice(w.Pkgs, func(i, j int) bool { return w.Pkgs[i].PkgPath < w.Pkgs[j].PkgPath })
	if len(w.Pkgs) < 20 {
		return nil, fmt.Errorf("only %d module packages loaded (expected >= 20)", len(w.Pkgs))
	}
	for _, p := range w.Pkgs {
		for _, f := range p.Syntax {
			for _, d := range f.Decls {
				if fd, ok := d.(*ast.FuncDecl); ok {
					if obj, ok := p.TypesInfo.Defs[fd.Name].(*types.Func); ok {
						w.declOf[obj] = fd
						w.fileOf[fd] = p
					}
				}
			}
		}
	}
	return w, nil
}

// ---------------------------------------------------------------- lookups

// Pkg returns the module package with the given path relative to the module
// root (e.g. "internal/streams").
func (w *World) Pkg(rel string) *packages.Package {
	return w.ByPath[modPath+"/"+rel]
}

func (w *World) Pos(p token.Pos) string {
	if !p.IsValid() {
		return "-"
	}
	pp := w.Fset.Position(p)
	fn := pp.Filename
	if strings.HasPrefix(fn, w.RepoDir+"/") {
		fn = fn[len(w.RepoDir)+1:]
	}
	return fmt.Sprintf("%s:%d", fn, pp.Line)
}

// Func looks up a package-level function.
func (w *World) Func(rel, name string) *types.Func {
	p := w.Pkg(rel)
	if p == nil {
		return nil
	}
	f, _ := p.Types.Scope().Lookup(name).(*types.Func)
	return f
}

// Named looks up a package-level named type.
func (w *World) Named(rel, name string) *types.Named {
	p := w.Pkg(rel)
	if p == nil {
		return nil
	}
	tn, _ := p.Types.Scope().Lookup(name).(*types.TypeName)
	if tn == nil {
		return nil
	}
	n, _ := tn.Type().(*types.Named)
	return n
}

// Method looks up a method declared on (or promoted into) *T or T.
func (w *World) Method(rel, typ, name string) *types.Func {
	n := w.Named(rel, typ)
	if n == nil {
		return nil
	}
	return methodOf(n, name)
}

func methodOf(n *types.Named, name string) *types.Func {
	if n == nil {
		return nil
	}
	obj, _, _ := types.LookupFieldOrMethod(types.NewPointer(n), true, n.Obj().Pkg(), name)
	f, _ := obj.(*types.Func)
	if f == nil {
		f = methodByRole(n, name)
	}
	return f
}

// roleSignatures: unexported methods the rules anchor on, by what they take and return (parameter names dropped,
// packages by their short name). When a method of that name no longer exists, the unique unexported method of the
// type with this signature is the same role under another name (a rename is not a change of behaviour).
var roleSignatures = map[string]string{
	"ServerDnsListener.validateAndGetUser":  "(uint16, net.Addr) (*dns.userConnection, error)",
	"ServerDnsListener.newUser":             "(net.Addr) (*dns.userConnection, error)",
	"ServerDnsListener.closeConnection":     "(*dns.userConnection) (error)",
	"ServerDnsListener.onMessage":           "(*dns.Msg, net.Addr) (*dns.Msg, error)",
	"ServerConnection.handshake":            "(*streams.BufferedInputConnection) (error)",
	"ServerConnection.upgrade":              "(*streams.BufferedInputConnection) (streams.Connection, error)",
	"ServerConnection.negotiateVersion":     "(string) (string)",
	"ClientConnection.handshake":            "(*streams.BufferedInputConnection) (error)",
	"Upstreams.open":                        "(cert.TlsConfig) (error)",
	"ConnectionHandler.muxHandler":          "(string, io.ReadWriteCloser) (error)",
	"ConnectionHandler.multiplexToUpstream": "(net.Conn) (error)",
}

func sigString(sig *types.Signature) string {
	q := func(p *types.Package) string { return p.Name() }
	var ps, rs []string
	for i := 0; i < sig.Params().Len(); i++ {
		ps = append(ps, types.TypeString(sig.Params().At(i).Type(), q))
	}
	for i := 0; i < sig.Results().Len(); i++ {
		rs = append(rs, types.TypeString(sig.Results().At(i).Type(), q))
	}
	return "(" + strings.Join(ps, ", ") + ") (" + strings.Join(rs, ", ") + ")"
}

func methodByRole(n *types.Named, name string) *types.Func {
	want, ok := roleSignatures[n.Obj().Name()+"."+name]
	if !ok {
		return nil
	}
	var found *types.Func
	for i := 0; i < n.NumMethods(); i++ {
		m := n.Method(i)
		if m.Exported() {
			continue
		}
		if sigString(m.Type().(*types.Signature)) == want {
			if found != nil {
				return nil // ambiguous
			}
			found = m
		}
	}
	return found
}

// DeclaredMethod returns the method only if it is declared directly on the
// named type (not promoted).
func declaredMethod(n *types.Named, name string) *types.Func {
	for i := 0; i < n.NumMethods(); i++ {
		if n.Method(i).Name() == name {
			return n.Method(i)
		}
	}
	return nil
}

func (w *World) Decl(f *types.Func) *ast.FuncDecl {
	if f == nil {
		return nil
	}
	return w.declOf[f.Origin()]
}

func (w *World) InfoOf(fd *ast.FuncDecl) *types.Info {
	if p := w.fileOf[fd]; p != nil {
		return p.TypesInfo
	}
	return nil
}

func (w *World) PkgOfDecl(fd *ast.FuncDecl) *packages.Package { return w.fileOf[fd] }

// Field returns the struct field object of a named struct type.
func fieldOf(n *types.Named, name string) *types.Var {
	if n == nil {
		return nil
	}
	st, ok := n.Underlying().(*types.Struct)
	if !ok {
		return nil
	}
	for i := 0; i < st.NumFields(); i++ {
		if st.Field(i).Name() == name {
			return st.Field(i)
		}
	}
	return nil
}

// Implementers returns all named (non-interface) types declared in the module
// whose pointer type implements the interface, sorted by qualified name.
func (w *World) Implementers(iface *types.Interface) []*types.Named {
	var out []*types.Named
	for _, p := range w.Pkgs {
		sc := p.Types.Scope()
		for _, nm := range sc.Names() {
			tn, ok := sc.Lookup(nm).(*types.TypeName)
			if !ok || tn.IsAlias() {
				continue
			}
			n, ok := tn.Type().(*types.Named)
			if !ok {
				continue
			}
			if _, isI := n.Underlying().(*types.Interface); isI {
				continue
			}
			if types.Implements(types.NewPointer(n), iface) || types.Implements(n, iface) {
				out = append(out, n)
			}
		}
	}
	sort.Slice(out, func(i, j int) bool { return qualName(out[i]) < qualName(out[j]) })
	return out
}

func (w *World) Interface(rel, name string) *types.Interface {
	n := w.Named(rel, name)
	if n == nil {
		return nil
	}
	i, _ := n.Underlying().(*types.Interface)
	return i
}

func qualName(n *types.Named) string {
	return relPkg(n.Obj().Pkg()) + "." + n.Obj().Name()
}

func relPkg(p *types.Package) string {
	if p == nil {
		return ""
	}
	s := p.Path()
	if strings.HasPrefix(s, modPath+"/") {
		s = s[len(modPath)+1:]
	}
	if strings.HasPrefix(s, "internal/") {
		s = s[len("internal/"):]
	}
	return s
}

// funcKey is the semantic, position-free name of a function or method.
func funcKey(f *types.Func) string {
	if f == nil {
		return "<nil>"
	}
	sig := f.Type().(*types.Signature)
	if r := sig.Recv(); r != nil {
		t := r.Type()
		ptr := ""
		if p, ok := t.(*types.Pointer); ok {
			t = p.Elem()
			ptr = "*"
		}
		if n, ok := t.(*types.Named); ok {
			return fmt.Sprintf("(%s%s.%s).%s", ptr, relPkg(n.Obj().Pkg()), n.Obj().Name(), f.Name())
		}
		return fmt.Sprintf("(%s).%s", t.String(), f.Name())
	}
	return relPkg(f.Pkg()) + "." + f.Name()
}

// isPkgFunc reports whether f is the object (pkgpath).name (package-level
// function) — used for library primitives.
func isPkgFunc(f *types.Func, pkgpath, name string) bool {
	if f == nil || f.Pkg() == nil {
		return false
	}
	if f.Type().(*types.Signature).Recv() != nil {
		return false
	}
	return f.Pkg().Path() == pkgpath && f.Name() == name
}

// isMethod reports whether f is method `name` whose receiver's named type is
// pkgpath.typ (pointer or value receiver, or interface method).
func isMethod(f *types.Func, pkgpath, typ, name string) bool {
	if f == nil || f.Name() != name {
		return false
	}
	r := f.Type().(*types.Signature).Recv()
	if r == nil {
		return false
	}
	t := r.Type()
	if p, ok := t.(*types.Pointer); ok {
		t = p.Elem()
	}
	n, ok := t.(*types.Named)
	if !ok || n.Obj().Pkg() == nil {
		return false
	}
	return n.Obj().Pkg().Path() == pkgpath && n.Obj().Name() == typ
}

// recvNamed returns the named receiver type of a method (nil for functions).
func recvNamed(f *types.Func) *types.Named {
	if f == nil {
		return nil
	}
	r := f.Type().(*types.Signature).Recv()
	if r == nil {
		return nil
	}
	t := r.Type()
	if p, ok := t.(*types.Pointer); ok {
		t = p.Elem()
	}
	n, _ := t.(*types.Named)
	return n
}

// AllFuncDecls iterates over every function declaration of the module in a
// deterministic order.
func (w *World) AllFuncDecls(fn func(p *packages.Package, fd *ast.FuncDecl)) {
	for _, p := range w.Pkgs {
		for _, f := range p.Syntax {
			for _, d := range f.Decls {
				if fd, ok := d.(*ast.FuncDecl); ok && fd.Body != nil {
					fn(p, fd)
				}
			}
		}
	}
}

// ---------------------------------------------------------------- SSA

func (w *World) SSA() *ssa.Program {
	if w.prog != nil {
		return w.prog
	}
	var roots []*packages.Package
	for _, p := range w.Pkgs {
		roots = append(roots, p)
	}
	prog, _ := ssautil.AllPackages(roots, ssa.InstantiateGenerics)
	prog.Build()
	w.prog = prog
	return prog
}

// SSAFunc returns the SSA function for a source-level function object.
func (w *World) SSAFunc(f *types.Func) *ssa.Function {
	if f == nil {
		return nil
	}
	return w.SSA().FuncValue(f)
}

func (w *World) CHA() *callgraph.Graph {
	if w.cgCHA == nil {
		w.cgCHA = cha.CallGraph(w.SSA())
	}
	return w.cgCHA
}

func (w *World) VTA() *callgraph.Graph {
	if w.cgVTA == nil {
		w.cgVTA = vta.CallGraph(ssautil.AllFunctions(w.SSA()), w.CHA())
	}
	return w.cgVTA
}

// inModule reports whether an SSA function belongs to the module's source.
func inModule(fn *ssa.Function) bool {
	if fn == nil {
		return false
	}
	p := fn.Pkg
	if p == nil && fn.Parent() != nil {
		return inModule(fn.Parent())
	}
	if p == nil {
		if o := fn.Origin(); o != nil && o != fn {
			return inModule(o)
		}
		return false
	}
	return strings.HasPrefix(p.Pkg.Path(), modPath)
}

func (w *World) countFuncs() int {
	n := 0
	w.AllFuncDecls(func(p *packages.Package, fd *ast.FuncDecl) { n++ })
	return n
}

type pkgAlias = packages.Package

// curWorld is the world loaded last (one per process): analyses that have no World parameter use it to ask
// whole-module questions (frozenGlobal).
var curWorld *World
var frozenCache = map[*ssa.Global]bool{}

// frozenGlobal: a package-level variable that no function of the module other than a package initialiser stores
// to and whose address does not escape into a call or another store: two loads of it yield the same value.
func frozenGlobal(g *ssa.Global) bool {
	if v, ok := frozenCache[g]; ok {
		return v
	}
	res := curWorld != nil
	if curWorld != nil {
		for _, f := range sortedModuleFuncs(curWorld, curWorld.SSA()) {
			isInit := f.Name() == "init" || strings.HasPrefix(f.Name(), "init#")
			allInstrs(f, func(in ssa.Instruction) {
				switch x := in.(type) {
				case *ssa.Store:
					if x.Addr == ssa.Value(g) && !isInit {
						res = false
					}
					if x.Val == ssa.Value(g) {
						res = false
					}
				case ssa.CallInstruction:
					for _, a := range x.Common().Args {
						if a == ssa.Value(g) {
							res = false
						}
					}
				case *ssa.MakeClosure, *ssa.MakeInterface, *ssa.Phi, *ssa.Return:
					for _, op := range in.Operands(nil) {
						if *op == ssa.Value(g) {
							res = false
						}
					}
				case *ssa.IndexAddr:
					// &g[i] of an array-typed global followed by a store: element writes do not change len
				}
			})
		}
	}
	frozenCache[g] = res
	return res
}

// fieldByType: the (first) field of a named struct type whose type satisfies pred — anchors by role, not by name.
func fieldByType(n *types.Named, pred func(t types.Type) bool) *types.Var {
	if n == nil {
		return nil
	}
	st, ok := n.Underlying().(*types.Struct)
	if !ok {
		return nil
	}
	for i := 0; i < st.NumFields(); i++ {
		if pred(st.Field(i).Type()) {
			return st.Field(i)
		}
	}
	return nil
}

// upstreamsSharedFields: the shared physical connection (the field whose type is the package's Upstream interface)
// and the multiplexer session (*smux.Session) of client/upstream.Upstreams, whatever they are called.
func upstreamsSharedFields(w *World) (ups *types.Named, connF, sessF *types.Var) {
	ups = w.Named("internal/client/upstream", "Upstreams")
	connF = fieldByType(ups, func(t types.Type) bool {
		n, ok := t.(*types.Named)
		return ok && n.Obj().Name() == "Upstream" && n.Obj().Pkg() != nil && strings.HasSuffix(n.Obj().Pkg().Path(), "/internal/client/upstream")
	})
	sessF = fieldByType(ups, isSmuxSessionPtr)
	return
}

func isSmuxSessionPtr(t types.Type) bool {
	p, ok := t.(*types.Pointer)
	if !ok {
		return false
	}
	n, ok := p.Elem().(*types.Named)
	return ok && n.Obj().Name() == "Session" && n.Obj().Pkg() != nil && strings.HasSuffix(n.Obj().Pkg().Path(), "xtaci/smux")
}
