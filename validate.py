#!/usr/bin/env python3-vt
import json, jsonschema, sys, glob
jsonschema.validate(json.load(open('/verif/MANIFEST.json')), json.load(open('/root/.vp/MANIFEST.schema.json')))
s = json.load(open('/root/.vp/EVIDENCE.schema.json'))
for f in sorted(glob.glob('/verif/evidence/C??.json')):
    jsonschema.validate(json.load(open(f)), s)
print('manifest + %d evidence files valid' % len(glob.glob('/verif/evidence/C??.json')))
